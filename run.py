#!/venv/bin/python
"""Single CLI:  run.py <Cxx> [--tier quick|thorough] [--replay FILE]

Always exercises /repo's current working tree (PYTHONPATH is forced), in a fresh process
with PYTHONHASHSEED=0.
"""
import importlib
import os
import sys

VERIF = os.path.dirname(os.path.abspath(__file__))
REPO = os.environ.get("VERIF_REPO", "/repo")


def _reexec():
    env = dict(os.environ)
    want = f"{REPO}:{VERIF}"
    if env.get("PYTHONHASHSEED") != "0" or not env.get("PYTHONPATH", "").startswith(want):
        env["PYTHONHASHSEED"] = "0"
        env["PYTHONPATH"] = want + (":" + env["PYTHONPATH"] if env.get("PYTHONPATH") else "")
        env["PYTHONDONTWRITEBYTECODE"] = "1"
        env.setdefault("PTERA_VERIF", "1")
        os.execve("/venv/bin/python", ["/venv/bin/python", os.path.abspath(__file__)] + sys.argv[1:], env)


def main():
    _reexec()
    os.chdir(VERIF)
    if len(sys.argv) < 2:
        print("usage: run.py <Cxx> [--tier quick|thorough] [--replay F]", file=sys.stderr)
        return 2
    prop = sys.argv[1].upper()
    import ptera

    real = os.path.realpath(os.path.dirname(ptera.__file__))
    if real != os.path.realpath(os.path.join(REPO, "ptera")):
        print(f"HARNESS-ERROR: ptera imported from {real}, not {REPO}", file=sys.stderr)
        return 2
    from vlib import core

    try:
        mod = importlib.import_module(f"checks.{prop.lower()}")
    except ImportError as e:
        print(f"HARNESS-ERROR: no check for {prop}: {e}", file=sys.stderr)
        return 2
    return core.main(mod, sys.argv[2:])


if __name__ == "__main__":
    try:
        rc = main()
    except SystemExit:
        raise
    except BaseException:
        import traceback

        traceback.print_exc()
        rc = 2
    sys.stdout.flush()
    sys.exit(rc)
