import sys, threading
cnt = {"line": 0, "opcode": 0}
def tracer(frame, event, arg):
    if "ptera" in frame.f_code.co_filename:
        frame.f_trace_opcodes = True
        cnt[event] = cnt.get(event, 0) + 1
        return tracer
    return None
from e1 import load
from ptera import probing
_, G = load("def f(x):\n    a = x + 1\n    return a\n")
def work():
    sys.settrace(tracer)
    with probing("f > a", env=G).values() as v:
        G["f"](1)
    sys.settrace(None)
    print(v)
t = threading.Thread(target=work); t.start(); t.join()
print(cnt)
