import sys; sys.path.insert(0, "/tmp/exp")
from e1 import load, run
from ptera import probing, tooled
import ptera; print(ptera.__file__)
_, G = load("def f(x):\n    for i in range(x):\n        r = yield i\n")
with probing("f > #yield", "f > #receive", env=G).values() as v1:
    it = G["f"](3); next(it); it.send("S"); it.close()
print(v1)
_, G = load("def f(x):\n    a = (b := x)\n    c = [(d := 1)]\n    return (e := 5)\n")
with probing("f > b", "f > d", "f > e", env=G).values() as v1: G["f"](3)
print(v1)
_, G = load("def f(xs):\n    try:\n        1/0\n    except ZeroDivisionError as e:\n        r = 5\n    class K:\n        z = 3\n    return r, K.z\n")
print(run(tooled(G["f"]), 1))
