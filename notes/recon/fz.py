import sys
sys.path.insert(0, "/tmp/exp/deps")
import atheris
with atheris.instrument_imports(include=["ptera"]):
    import ptera.selector as S
    import ptera.opparse
from ptera.selector import parse, SelectorError
ALPHA = ["f", "x", ">", "(", ")", "!", "!!", "$", ":", "@T", "=", "~", ",", " as ", "*", "#value", " ", "[", "]", "'s'", "1", "{", "}", "%"]
seen = set()
def one(data):
    s = "".join(ALPHA[b % len(ALPHA)] for b in data[:12])
    try:
        parse(s)
    except (SyntaxError, SelectorError):
        pass
    except AssertionError as e:
        if s.strip() == "":
            return
        raise
atheris.Setup(sys.argv, one)
atheris.Fuzz()
