from e1 import load, run
from ptera import probing, tooled
src = '''
def make():
    c = 0
    def inc(k):
        nonlocal c
        c += k
        return c
    def get():
        return c
    def bump():
        nonlocal c
        c += 100
    return inc, get, bump
'''
_, G = load(src, "make")
inc, get, bump = G["make"]()
print(inc(1), get())
t = tooled(inc)
print("tooled:", t(1), get(), "(expect 2 2)")
bump()
print("after bump tooled:", t(1), get(), "(expect 103 103 if shared)")
inc2, get2, bump2 = G["make"]()
with probing("inc2 > k", env={"inc2": inc2}).values() as v:
    print("probing:", inc2(1), get2(), v)
    bump2()
    print("probing after bump:", inc2(1), get2())
ti = tooled.inplace(G["make"]()[0])
inc3, get3, bump3 = G["make"]()
ti = tooled.inplace(inc3)
print("inplace:", ti(1), get3()); bump3(); print(ti(1), get3())
try:
    with probing("inc2 > c", env={"inc2": inc2}, overridable=True) as p:
        p.override(5)
        print(inc2(1))
except Exception as e:
    print("override closure:", type(e).__name__, e)
