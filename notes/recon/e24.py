from e1 import load, run
from ptera import probing, tooled, Overlay, select
from ptera.overlay import BaseOverlay
from ptera.interpret import Immediate
# C11 spy
_, G = load('def f(a: "@A", b):\n    c: "@A & @B" = a + b\n    d = c\n    c = 5\n    return d\n')
f = G["f"]
spy = []
with probing("f > $x:@A", env=G, raw=True).values() as v:
    with BaseOverlay(Immediate(select("f > $y", env=G), trigger=lambda d: spy.append((d["y"].names[0], d["y"].values[0])))):
        f(1, 2)
print("selected:", [(c["x"].names, c["x"].values) for c in v], "spy:", spy)

# C17 late subscriber / reducers
_, G = load("def f(x):\n    a = x\n    return a\n")
f = G["f"]
p = probing("f > a", env=G)
early = p["a"].accum(); cnt = p["a"].count().accum(); mx = p["a"].max().accum()
f(100)   # before activation
with p:
    f(1); f(2)
    late = p["a"].accum(); latesum = p["a"].sum().accum()
    f(3)
    print("mid:", early, late, cnt, mx, latesum)
f(200)
print("end:", early, late, cnt, mx, latesum)
after = p["a"].accum()
f(300); print("after:", after)
try:
    with p: pass
except Exception as e: print("re-enter:", e)
# exception exit
p2 = probing("f > a", env=G); c2 = p2["a"].count().accum()
try:
    with p2:
        f(1); raise KeyError("x")
except KeyError: pass
print("exc exit count:", c2)

# C04 closure override
src = "def make():\n    c = 5\n    def inner(x):\n        y = x + c\n        return y\n    return inner\n"
_, G = load(src, "make"); inner = G["make"]()
try:
    with probing("inner > c", env={"inner": inner}, overridable=True) as op:
        op.override(7)
        print(inner(1))
except Exception as e: print("closure override:", type(e).__name__, e)
print("after closure override attempt:", inner(1), inner.__code__.co_name)
with probing("inner > c", env={"inner": inner}).values() as v: inner(1)
print("closure probe:", v)

# C12 values
_, G = load("def f(n):\n    for i in range(n):\n        j = i * 2\n    return j\n"); G["K"] = 2
from ptera.tools import every, between, gt
G.update(every=every, between=between, gt=gt)
for sel in ["f(i=K) > j", "f(i=2) > j", "f(i~every(2)) > j", "f(n=5, i~between(1, 4)) > j", "f(i~gt(K)) > j", "f(i~every(2, start=1)) > j", "f > j~gt(3)", "f(n=4) > j"]:
    with probing(sel, env=G).values() as v: G["f"](5)
    print(sel, v)
