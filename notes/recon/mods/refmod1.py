import functools

def deco(fn):
    @functools.wraps(fn)
    def w(*a, **k):
        return fn(*a, **k)
    return w

def top(x):
    a = x + 1
    return a

@deco
def decorated(x):
    a = x + 2
    return a

class K:
    def meth(self, x):
        a = x + 3
        return a
    class Inner:
        def im(self, x):
            a = x + 4
            return a

def factory():
    def inner(x):
        a = x + 5
        return a
    return inner

inner_fn = factory()
