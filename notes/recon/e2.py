from e1 import load, run
from ptera import probing, tooled, Overlay, ABSENT
import contextlib

def probe(src, sel, arg=None, name="f", **kw):
    f, g = load(src)
    try:
        with probing(sel, env=g, **kw).values() as v:
            r = run(f, arg if arg is not None else [1,2])
    except BaseException as e:
        return ("PROBEFAIL", type(e).__name__, str(e)[:150])
    return r, v

print("with-target:", probe("import contextlib\ndef f(xs):\n    with contextlib.nullcontext(5) as w:\n        pass\n    return w\n", "f > w"))
print("import os.path:", probe("def f(xs):\n    import os.path\n    return 1\n", "f > os"))
print("comp var:", probe("def f(xs):\n    return [i for i in xs]\n", "f > i"))
print("comp walrus:", probe("def f(xs):\n    return [(y := i) for i in xs]\n", "f > y"))
print("nested def name:", probe("def f(xs):\n    def inner(q):\n        return q\n    return inner(1)\n", "f > inner"))
print("nested def param:", probe("def f(xs):\n    def inner(q):\n        return q\n    return inner(1)\n", "f > q"))
print("undefined global uninstr:", probe("def f(xs):\n    if xs:\n        return UNDEF\n    return 0\n", "f > xs"))
print("undefined global unused path:", probe("def f(xs):\n    if xs:\n        return UNDEF\n    return 0\n", "f > xs", arg=[]))
print("undefined global full:", probe("def f(xs):\n    if xs:\n        return UNDEF\n    return 0\n", "f > $v", arg=[], raw=True))
print("except body var:", probe("def f(xs):\n    try:\n        1/0\n    except ZeroDivisionError as e:\n        r = 5\n    return r\n", "f > r"))
print("except body var generic:", probe("def f(xs):\n    try:\n        1/0\n    except ZeroDivisionError as e:\n        r = 5\n    return r\n", "f > e"))
print("aug attr:", probe("class O:\n    x = 1\ndef f(xs):\n    o = O()\n    o.x = 2\n    o.x += 1\n    return o.x\n", "f > o.x"))
print("attr store:", probe("class O:\n    x = 1\ndef f(xs):\n    o = O()\n    o.x = 2\n    return o.x\n", "f(o) > o.x"))
print("ann decl:", probe("def f(xs):\n    a: int\n    return a\n", "f > xs"))
print("ann decl2:", probe("def f(xs):\n    a: int\n    return 1\n", "f > xs"))
print("ann decl3 a:", probe("def f(xs):\n    a: int\n    return 1\n", "f > a"))
f, g = load("def f(xs):\n    a: int\n    return a\n")
print("untooled decl:", run(f, [1]))
with Overlay.tweaking({"f > a": 7}):
    pass
g['f'] = f
from ptera import select
with Overlay.tweaking({select("f > a", env=g): 7}):
    print("tweak untooled:", run(f, [1]))
t = tooled(f)
g['t'] = t
with Overlay.tweaking({select("t > a", env=g): 7}):
    print("tweak tooled:", run(t, [1]))
print("tooled decl no overlay:", run(t, [1]))
try:
    t([1])
except Exception as e:
    print(type(e), e.info())
