from e1 import load, run
from ptera import probing, tag
import functools
src = '''
import functools
def deco(fn):
    @functools.wraps(fn)
    def w(*a, **k):
        return fn(*a, **k)
    return w

class P:
    def __init__(self, n): self.n = n
    def meth(this, x):
        v = x + this.n
        return v
    @deco
    def dmeth(self, x):
        v = x * 2
        return v
    @property
    def prop(self):
        v = self.n
        return v

class Sub(P):
    pass

class EqH(P):
    def __eq__(self, o): return isinstance(o, EqH)
    def __hash__(self): return 1

class EqNoHash(P):
    def __eq__(self, o): return isinstance(o, EqNoHash) and o.n == self.n

def meth(x):
    v = -x
    return v
'''
_, G = load(src, "meth")
P_, Sub, EqH, EqNoHash = G["P"], G["Sub"], G["EqH"], G["EqNoHash"]
def T(sel, env, calls):
    try:
        with probing(sel, env={**G, **env}).values() as v:
            for c in calls: c()
        return v
    except Exception as e:
        return ("FAIL", type(e).__name__, str(e)[:150])
a, b = P_(1), P_(2)
print("cls", T("P.meth > v", {}, [lambda: a.meth(1), lambda: b.meth(1), lambda: G["meth"](1)]))
print("obj", T("a.meth > v", {"a": a}, [lambda: a.meth(1), lambda: b.meth(1), lambda: G["meth"](1)]))
print("obj this", T("a.meth(this) > v", {"a": a}, [lambda: a.meth(1), lambda: b.meth(1)]))
s = Sub(5)
print("sub obj", T("s.meth > v", {"s": s}, [lambda: a.meth(1), lambda: s.meth(1)]))
print("Sub.meth", T("Sub.meth > v", {}, [lambda: a.meth(1), lambda: s.meth(1)]))
e1, e2 = EqH(1), EqH(2)
print("eqh e1", T("e1.meth > v", {"e1": e1}, [lambda: e1.meth(1), lambda: e2.meth(1)]))
print("eqh e2", T("e2.meth > v", {"e2": e2}, [lambda: e1.meth(1), lambda: e2.meth(1)]))
n1, n2 = EqNoHash(1), EqNoHash(1)
print("nohash", T("n1.meth > v", {"n1": n1}, [lambda: n1.meth(1), lambda: n2.meth(1)]))
print("deco cls", T("P.dmeth > v", {}, [lambda: a.dmeth(1), lambda: b.dmeth(1)]))
print("deco obj", T("a.dmeth > v", {"a": a}, [lambda: a.dmeth(1), lambda: b.dmeth(1)]))
print("prop cls", T("P.prop > v", {}, [lambda: a.prop, lambda: b.prop]))
class Holder: pass
hh = Holder(); hh.inner = Holder(); hh.inner.obj = a
print("dotted", T("hh.inner.obj.meth > v", {"hh": hh}, [lambda: a.meth(1), lambda: b.meth(1)]))
