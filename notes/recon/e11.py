from e1 import load, run
from ptera import probing, tag
src = '''
from ptera import tag
def f(a: "@A", b: tag.B, c: "@A & @B" = 3, d=4) -> tag.R:
    e: "@A" = a
    e = 5
    g: tag.A & tag.B & tag.C = 6
    h: int = 7
    k = 8
    for a in range(1):
        pass
    return e
'''
_, G = load(src)
f = G["f"]
def P(sel, **kw):
    try:
        with probing(sel, env=G, raw=True, **kw).values() as v:
            f(1, 2)
        return [(k, c.names, c.values) for d in v for k, c in d.items()]
    except Exception as e:
        return ("FAIL", type(e).__name__, str(e)[:120])
print("A", P("f > $x:@A"))
print("B", P("f > $x:@B"))
print("C", P("f > $x:@C"))
print("Z", P("f > $x:@Z"))
print("*:@A", P("f > *:@A"))
print("e:@A", P("f > e:@A"))
print("e:@B", P("f > e:@B"))
print("k:@B", P("f > k:@B"))
print("$x", P("f > $x"))
print("fn tag R", P("*:@R > e"))
print("fn tag A", P("*:@A > e"))
print("f:@R", P("f:@R > e"))
