from e1 import load, run
from ptera import probing, tooled, Overlay, ABSENT, select, global_probe
from ptera.overlay import HandlerCollection, BaseOverlay
from ptera.probe import global_probes
src = '''
def f(x):
    a = x + 1
    return a

def g(x):
    b = f(x) * 2
    return b
'''
_, G = load(src)
f, g = G["f"], G["g"]
f0 = f.__code__; g0 = g.__code__
def state():
    st = getattr(f, "__ptera_stack__", None)
    return dict(f_orig=f.__code__ is f0, g_orig=g.__code__ is g0, cur=HandlerCollection.current.get(),
                cnt=st and (st.instrument_count, dict(st.captures)), gp=len(global_probes))
# 3. non-LIFO global probes
p1 = global_probe("f > a", env=G); l1 = p1["a"].accum()
p2 = global_probe("g(x) > f > a", env=G); l2 = p2.accum()
g(1)
print("3a", l1, l2)
p1.deactivate()
g(2)
print("3b after p1 deact (p1 should get nothing more, p2 should get a=3):", l1, l2, state())
p2.deactivate()
g(3)
print("3c", l1, l2, state())

# 4. exception inside with
try:
    with probing("f > a", env=G).values() as v:
        f(1)
        raise KeyError("boom")
except KeyError:
    pass
print("4", v, state())
# 5. subscriber raises during event
try:
    with probing("f > a", env=G) as p:
        p.subscribe(lambda d: 1/0)
        f(1)
except ZeroDivisionError:
    print("5 zde propagated")
print("5", state())
# 6. re-enter
p = probing("f > a", env=G)
with p: f(1)
try:
    with p: f(2)
except Exception as e:
    print("6 raised", e)
print("6", state())
