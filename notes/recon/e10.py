from e1 import load, run
from ptera import probing
src = '''
def f(n, d):
    a = n
    if d > 0:
        f(n + 1, d - 1)
    g(n * 10)
    return a

def g(y):
    b = y
    h(y + 1)
    return b

def h(z):
    c = z
    if z == 12:
        raise KeyError(z)
    return c

def m(k):
    q = k
    return g(k)
'''
_, G = load(src)
f, g, h = G["f"], G["g"], G["h"]
with probing("f(a) > g(b) > h > c", env=G).values() as v:
    run(f, 0, 1)
print(v)
with probing("f(a as a1) > f(a as a2) > h > c", env=G).values() as v:
    run(f, 0, 2)
print(v)
with probing("f(a, g(b, h(c)))", env=G, raw=True).values() as v:
    print(run(f, 0, 1))
print([{k: c.values for k, c in d.items()} for d in v])
with probing("f(a, g(b, h(c)))", env=G, raw=True).values() as v:
    print(run(f, 1, 1))
print([{k: c.values for k, c in d.items()} for d in v])
with probing("f(a) > g(b) > h > c", env=G, raw=True, probe_type="total").values() as v:
    print(run(f, 0, 1))
print([{k: c.values for k, c in d.items()} for d in v])
with probing("f(a, g(b), h(!c))", env=G).values() as v:
    print(run(f, 0, 1))
print(v)
