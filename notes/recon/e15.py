from ptera.selector import parse, select, SelectorError
from ptera import probing, tag
import random, traceback
from collections import Counter, defaultdict
alphabet = ["f", "g", "x", "y", ">", "(", ")", "!", "!!", "$", ":", "@T", "=", "~", ",", " as ", "*", "#value", "#enter", "#bad", " ", "[", "]", "'s'", "1", "{", "}", ".", "-", ">>", "[[", "]]", "%", "\n", "f.x", "/m/f", "zz", "1.5", "every(2)"]
def f(x):
    y = x
    return y
def g(x):
    y = x
    return y
env = {"f": f, "g": g, "every": lambda n: (lambda v: v % n == 0), "T": 3}
rnd = random.Random(1)
c = defaultdict(Counter)
ex = defaultdict(list)
def bucket(e):
    tb = traceback.extract_tb(e.__traceback__)
    fr = [t for t in tb if "/ptera/" in t.filename]
    last = fr[-1] if fr else tb[-1]
    return (type(e).__name__, last.filename.split("/")[-1], last.name, last.lineno)
for i in range(300000):
    n = rnd.randint(1, 9)
    s = "".join(rnd.choice(alphabet) for _ in range(n))
    for stage, fn in (("parse", parse), ("select", lambda s: select(s, env=env))):
        try:
            fn(s)
            k = "ok"
        except (SyntaxError, SelectorError) as e:
            k = type(e).__name__
        except BaseException as e:
            k = bucket(e)
        c[stage][k] += 1
        if len(ex[(stage, k)]) < 6: ex[(stage, k)].append(s)
for stage in c:
    for k, n in c[stage].most_common():
        print(stage, k, n, ex[(stage, k)][:6])
