from e1 import load, run
from ptera import probing
src = '''
def f(n):
    a = n
    g(2)
    return a

def g(d):
    b = d
    if d > 1:
        g(d - 1)
    else:
        h(d)
    return b

def h(z):
    c = z
    return c

def p(x, y):
    return x + y
'''
_, G = load(src)
with probing("f(a, g(b, h(c)))", env=G, raw=True).values() as v:
    G["f"](0)
print([{k: c.values for k, c in d.items()} for d in v])
with probing("f(a) > g(b) > h > c", env=G).values() as v:
    G["f"](0)
print(v)
with probing("p(y) > x", env=G).values() as v:
    G["p"](1, 2)
print(v)
with probing("p(x) > y", env=G).values() as v:
    G["p"](1, 2)
print(v)
