from e1 import load, run
from ptera import probing, tooled, Overlay, ABSENT, select
from ptera.overlay import HandlerCollection, BaseOverlay
from ptera.interpret import Immediate

src = '''
def gen(n):
    for i in range(n):
        a = i
        yield a

def g(x):
    a = x * 10
    return a

def outer(n):
    z = n
    it = gen(n)
    next(it)
    r = g(z)
    return r
'''
f, G = load(src, "outer")
gen, g, outer = G["gen"], G["g"], G["outer"]

# C09: suspended generator leaks?
with probing("gen > g > a", env=G).values() as v:
    it = gen(3)
    next(it)
    print("current while suspended:", HandlerCollection.current.get().handler_pairs)
    g(5)      # driver calls g while gen suspended -> should NOT fire
    next(it)
    it.close()
print("C09 leak events:", v)

# after overlay ends: drop generator later
with probing("gen > a", env=G).values() as v:
    it = gen(3)
    next(it)
print("after with, current:", HandlerCollection.current.get())
try:
    it.close()
    print("close OK; current:", HandlerCollection.current.get())
except BaseException as e:
    print("close raised", type(e), e)
print(gen.__code__ is G["gen"].__code__)

# interleaved gens
with probing("gen > a", env=G).values() as v:
    i1 = gen(3); i2 = gen(3)
    next(i1); next(i2)
    try:
        i1.close()
        print("i1 closed; current:", HandlerCollection.current.get() and len(HandlerCollection.current.get().handler_pairs))
        i2.close()
        print("i2 closed; current:", HandlerCollection.current.get() and len(HandlerCollection.current.get().handler_pairs))
    except BaseException as e:
        print("interleaved close raised", type(e), e)
print("end current:", HandlerCollection.current.get())
g(1)
