from e1 import load, run
from ptera import probing, tooled, Overlay, ABSENT, select, global_probe
from ptera.overlay import HandlerCollection, BaseOverlay
from ptera.probe import global_probes
from ptera.interpret import Immediate

src = '''
def f(x):
    a = x + 1
    return a

def g(x):
    b = f(x) * 2
    return b
'''
_, G = load(src)
f, g = G["f"], G["g"]
f0 = f.__code__; g0 = g.__code__
def state():
    st = getattr(f, "__ptera_stack__", None)
    return dict(f_orig=f.__code__ is f0, g_orig=g.__code__ is g0, cur=HandlerCollection.current.get(),
                cnt=st and (st.instrument_count, dict(st.captures)), gp=len(global_probes))

# 1. failed activation: bad variable
try:
    with probing("f > nonexistent", env=G).values() as v:
        pass
except Exception as e:
    print("1 raised", type(e).__name__)
print("1", state())

# 1b. two selectors second fails
try:
    with probing("f > a", "g > nonexistent", env=G).values() as v:
        pass
except Exception as e:
    print("1b raised", type(e).__name__)
print("1b", state())
