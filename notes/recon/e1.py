import linecache, types, sys, itertools
from ptera import probing, tooled, Overlay
from ptera.overlay import BaseOverlay
from ptera.interpret import Immediate, Total

_n = itertools.count()
def load(src, name="f", glb=None):
    fn = f"<gen-{next(_n)}>"
    linecache.cache[fn] = (len(src), None, src.splitlines(True), fn)
    g = {"__name__": "genmod"} if glb is None else glb
    exec(compile(src, fn, "exec"), g)
    return g[name], g

def run(f, *a):
    try:
        return ("ret", f(*a))
    except BaseException as e:
        return ("exc", type(e).__name__, str(e))

cases = {
"starred": "def f(xs):\n    a, *b = xs\n    return a, b\n",
"gen_unpack": "def f(xs):\n    a, b = (i for i in xs)\n    return a, b\n",
"dict_unpack": "def f(xs):\n    a, b = {1: 2, 3: 4}\n    return a, b\n",
"nested_tuple": "def f(xs):\n    (a, b), c = (1, 2), 3\n    return a, b, c\n",
"list_target": "def f(xs):\n    [a, b] = xs\n    return a, b\n",
"str_unpack": "def f(xs):\n    a, b = 'xy'\n    return a, b\n",
"too_many": "def f(xs):\n    a, b = xs\n    return a, b\n",
"chain": "def f(xs):\n    a = b = xs\n    return a, b\n",
"aug": "def f(xs):\n    a = 1\n    a += 2\n    return a\n",
"with": "import contextlib\ndef f(xs):\n    with contextlib.nullcontext(5) as w:\n        pass\n    return w\n",
"classdef": "def f(xs):\n    class K:\n        z = 3\n    return K.z\n",
"global_rebind": "G = 1\ndef setg():\n    global G\n    G = 2\ndef f(xs):\n    setg()\n    return G\n",
"del": "def f(xs):\n    a = 1\n    del a\n    return 3\n",
"forelse": "def f(xs):\n    for i in xs:\n        pass\n    else:\n        i = -1\n    return i\n",
"for_tuple": "def f(xs):\n    for i, (j, k) in [(1, (2, 3))]:\n        pass\n    return i, j, k\n",
"for_star": "def f(xs):\n    for i, *j in [(1, 2, 3)]:\n        pass\n    return i, j\n",
"for_attr": "class O: pass\ndef f(xs):\n    o = O()\n    for o.x in xs:\n        pass\n    return o.x\n",
"lambda": "def f(xs):\n    g = lambda q: q + 1\n    return g(1)\n",
"comp": "def f(xs):\n    return [i * 2 for i in xs]\n",
"nonlocal_inner": "def f(xs):\n    a = 1\n    def inner():\n        nonlocal a\n        a = 2\n    inner()\n    return a\n",
"global_stmt": "G = 1\ndef f(xs):\n    global G\n    G = 5\n    return G\n",
"try_fin": "def f(xs):\n    try:\n        return 1\n    finally:\n        xs.append(9)\n",
"walrus": "def f(xs):\n    if (n := len(xs)) > 1:\n        return n\n    return -n\n",
"subscript_side": "def f(xs):\n    d = {}\n    d[xs.pop()] = 1\n    return d, xs\n",
"annassign": "def f(xs):\n    a: int = 3\n    return a\n",
"annassign_attr": "class O: pass\ndef f(xs):\n    o = O()\n    o.x: int = 3\n    return o.x\n",
"import": "def f(xs):\n    import os.path\n    import os.path as p\n    from os import sep\n    return sep\n",
"except_name": "def f(xs):\n    try:\n        1/0\n    except ZeroDivisionError as e:\n        r = str(e)\n    return r\n",
"async": "async def f(xs):\n    return 1\n",
"kwonly": "def f(xs, *args, k=3, **kw):\n    return xs, args, k, kw\n",
"default_arg": "def f(xs, y=[1]):\n    return xs, y\n",
"posonly": "def f(xs, /, y=2):\n    return xs, y\n",
"docstring": "def f(xs):\n    'doc'\n    return f.__doc__\n",
"unbound_local": "def f(xs):\n    if xs:\n        a = 1\n    return a\n",
"builtins_use": "def f(xs):\n    return len(xs) + sum(xs)\n",
"match": "def f(xs):\n    match xs:\n        case [a, b]:\n            return a + b\n        case _:\n            return 0\n",
"star_middle": "def f(xs):\n    a, *b, c = xs\n    return a, b, c\n",
"tuple_attr": "class O: pass\ndef f(xs):\n    o = O()\n    o.x, o.y = xs\n    return o.x, o.y\n",
}
import copy
for name, src in cases.items():
    try:
        f0, g0 = load(src)
        f1, g1 = load(src)
        arg = [1, 2]
        r0 = run(f0, copy.deepcopy(arg))
        try:
            t = tooled(f1)
            r1 = run(t, copy.deepcopy(arg))
        except BaseException as e:
            r1 = ("TOOLFAIL", type(e).__name__, str(e)[:100])
        f2, g2 = load(src)
        g2['f']=f2
        try:
            with probing("f > xs", env=g2).values() as v:
                r2 = run(f2, copy.deepcopy(arg))
        except BaseException as e:
            r2 = ("PROBEFAIL", type(e).__name__, str(e)[:100])
        flag = "OK " if str(r0) == str(r1) == str(r2) else "DIFF"
        print(flag, name, r0, r1, r2)
    except Exception as e:
        import traceback; traceback.print_exc()
        print("ERR", name, e)
