from ptera.selector import parse, select, SelectorError
import itertools
def P(s):
    try:
        return parse(s)
    except BaseException as e:
        return (type(e).__name__, str(e)[:80])
pairs = [("f > x", "f(!x)"), ("f(a) > x", "f(a, !x)"), ("a > b > c", "a > (b > c)"), ("a > b > c", "a(b(!c))"),
 ("f() as r", "f(!#value as r)"), ("$x", "* as x"), ("f(b)=c", "f(b, #value=c)"), ("f >  x", "f\n>\nx"),
 ("f > x:@T", "f(!x:@T)"), ("f > $x:@T", "f(!$x:@T)"), ("f(a as b) > x", "f(a as b, !x)"), ("f > x as y", "f(!x as y)"),
 ("f(a=1) > x", "f(a=1, !x)"), ("f(a~g(1)) > x", "f(a~g(1), !x)"), ("f > g() as r", "f > g(!#value as r)"), ("f > g() as r", "f(g(!#value as r))"),
 ("f(x as y:@T)", "f(x:@T as y)"), ("f > #enter", "f(!#enter)"), ("f(!!x, !y)", "f(!y, !!x)"), ("f(a)(b)", "f(a, b)"),
 ("f > x=1", "f(!x=1)"), ("f(a) > g(b) > x", "f(a, g(b, !x))"), ("f() as r = 3", "f(!#value as r=3)"),
]
for a, b in pairs:
    pa, pb = P(a), P(b)
    print("SAME" if pa is pb else "DIFF", repr(a), repr(b), pa, pb)
alphabet = ["f", "x", ">", "(", ")", "!", "!!", "$", ":", "@T", "=", "~", ",", " as ", "*", "#value", " ", "[", "]", "'s'", "1", "{", "}", ".", "-", ">>", "[[", "]]", "%", "\n"]
from collections import Counter
c = Counter()
ex = {}
for n in range(0, 4):
    for toks in itertools.product(alphabet, repeat=n):
        s = "".join(toks)
        r = P(s)
        k = r[0] if isinstance(r, tuple) else "ok"
        c[k] += 1
        ex.setdefault(k, []).append(s)
print(c)
for k in ex:
    if k not in ("ok", "SyntaxError"):
        print(k, ex[k][:15])
