from e1 import load, run
from ptera import probing
src = '''
def f(n, boom):
    a = n
    g(n * 10, boom)
    if n:
        d = 1
    return a

def g(y, boom):
    b = y
    if boom:
        raise KeyError(y)
    return b
'''
_, G = load(src)
f = G["f"]
def tot(sel, *args, **kw):
    with probing(sel, env=G, raw=True, **kw).values() as v:
        r = run(f, *args)
    return r, [{k: c.values for k, c in d.items()} for d in v]
print(tot("f(a, g(b))", 1, False))
print(tot("f(a, g(b))", 1, True))
print(tot("f(a, d)", 0, False))
print(tot("f(a, d, g(b))", 1, True))
print(tot("f(a, #error)", 1, True))
print(tot("f(a, #value)", 1, False))
print(tot("f(a) > g > b", 1, False, probe_type="total"))
