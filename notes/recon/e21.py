import sys, threading, types
import ptera.transform, ptera.overlay, ptera.probe, ptera.interpret, ptera.selector
from e1 import load
from ptera import probing
mon = sys.monitoring
TOOL = mon.DEBUGGER_ID
mon.use_tool_id(TOOL, "sched")
cnt = {"instr": 0, "line": 0}
def on_instr(code, off):
    cnt["instr"] += 1
def on_line(code, line):
    cnt["line"] += 1
mon.register_callback(TOOL, mon.events.INSTRUCTION, on_instr)
mon.register_callback(TOOL, mon.events.LINE, on_line)
def codes_of(mod):
    out = []
    def rec(co):
        out.append(co)
        for c in co.co_consts:
            if isinstance(c, types.CodeType): rec(c)
    for v in vars(mod).values():
        if isinstance(v, types.FunctionType) and v.__module__ == mod.__name__:
            rec(v.__code__)
        elif isinstance(v, type) and v.__module__ == mod.__name__:
            for m in vars(v).values():
                if isinstance(m, types.FunctionType): rec(m.__code__)
    return out
n = 0
for mod in (ptera.transform, ptera.overlay, ptera.probe):
    for co in codes_of(mod):
        mon.set_local_events(TOOL, co, mon.events.INSTRUCTION | mon.events.LINE); n += 1
print("codes", n)
_, G = load("def f(x):\n    a = x + 1\n    return a\n")
import time
t0 = time.time()
with probing("f > a", env=G).values() as v:
    G["f"](1)
print(v, cnt, time.time() - t0)
