"""Prototype: baton scheduler with sys.monitoring switch points; try to reproduce the push/_apply race."""
import sys, threading, types, itertools
import ptera.transform, ptera.overlay, ptera.probe
T = sys.modules["ptera.transform"]; O = sys.modules["ptera.overlay"]; P = sys.modules["ptera.probe"]
from e1 import load
from ptera import probing
from ptera.overlay import HandlerCollection

mon = sys.monitoring
TOOL = mon.DEBUGGER_ID
mon.use_tool_id(TOOL, "sched")

class Sched:
    def __init__(self, n, preempt):
        self.n = n
        self.preempt = dict(preempt)      # switch-point index -> thread to run
        self.sem = [threading.Semaphore(0) for _ in range(n)]
        self.done = [False] * n
        self.cur = None
        self.k = 0
        self.tid = {}
        self.trace = []
        self.active = False
    def me(self):
        return self.tid.get(threading.get_ident())
    def point(self, label):
        if not self.active: return
        i = self.me()
        if i is None or i != self.cur: return
        k = self.k; self.k += 1
        tgt = self.preempt.get(k)
        if tgt is not None and tgt != i and not self.done[tgt]:
            self.trace.append((k, label, i, tgt))
            self.cur = tgt
            self.sem[tgt].release()
            self.sem[i].acquire()
    def finish(self, i):
        self.done[i] = True
        for j in range(self.n):
            if not self.done[j]:
                self.cur = j
                self.sem[j].release()
                return
    def run(self, progs):
        ths = []
        def body(i):
            self.tid[threading.get_ident()] = i
            self.sem[i].acquire()
            try:
                progs[i]()
            finally:
                self.finish(i)
        for i in range(self.n):
            t = threading.Thread(target=body, args=(i,)); ths.append(t); t.start()
        self.active = True
        self.cur = 0
        self.sem[0].release()
        for t in ths: t.join(10)
        self.active = False
        return all(not t.is_alive() for t in ths)

SCHED = None
def on_instr(code, off):
    if SCHED: SCHED.point((code.co_name, off))
mon.register_callback(TOOL, mon.events.INSTRUCTION, on_instr)
crit = [T.StackedTransforms.push, T.StackedTransforms.pop, T.StackedTransforms.get,
        T.SyncedStackedTransforms.push, T.SyncedStackedTransforms.pop, T.SyncedStackedTransforms._apply,
        O._tooler, O._untooler]
for fn in crit:
    mon.set_local_events(TOOL, fn.__code__, mon.events.INSTRUCTION)

SRC = "def f(x):\n    a = x + 1\n    b = a * 2\n    return b\n"
def one(preempt):
    global SCHED
    _, G = load(SRC)
    f = G["f"]; orig = f.__code__
    res = [None, None]
    def prog(i, var):
        def run():
            with probing(f"f > {var}", env=G).values() as v:
                r = f(i + 1)
            res[i] = (r, v)
        return run
    s = Sched(2, preempt)
    SCHED = s
    ok = s.run([prog(0, "a"), prog(1, "b")])
    SCHED = None
    st = f.__ptera_stack__
    good = (ok and res[0] == (4, [{"a": 2}]) and res[1] == (6, [{"b": 6}]) and f.__code__ is orig
            and st.instrument_count == 0)
    return good, res, f.__code__ is orig, st.instrument_count, s.k, s.trace

# baseline
print(one({}))
bad = 0; tot = 0; first = None
# one preemption to thread 1 at point k, then thread1 runs to completion, then thread 0 resumes
ok, res, _, _, K, _ = one({})
for k in range(0, 400):
    r = one({k: 1})
    tot += 1
    if not r[0]:
        bad += 1
        if first is None: first = (k, r)
print("single preemption: bad", bad, "of", tot)
print(first)
# two preemptions: 0 ->1 at k1, 1->0 at k2
bad2 = 0; tot2 = 0; ex = None
for k1 in range(0, 120, 3):
    for k2 in range(k1 + 1, k1 + 120, 3):
        r = one({k1: 1, k2: 0})
        tot2 += 1
        if not r[0]:
            bad2 += 1
            if ex is None: ex = ((k1, k2), r)
print("two preemptions: bad", bad2, "of", tot2)
print(ex)
