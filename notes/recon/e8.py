from e1 import load, run
from ptera import probing
_, G = load("def f(x):\n    for i in range(x):\n        r = yield i\n")
f = G["f"]
with probing("f > #yield", env=G).values() as v1:
    it = f(3); print(next(it), it.send("S")); it.close()
print(v1)
with probing("f > #receive", env=G).values() as v1:
    it = f(3); print(next(it), it.send("S")); it.close()
print(v1)
with probing("f > #yield", "f > #receive", "f > #loop_i", env=G).values() as v1:
    it = f(3); print(next(it), it.send("S")); it.close()
print(v1)
with probing("f > #loop_i","f > #yield", "f > #receive",  env=G).values() as v1:
    it = f(3); print(next(it), it.send("S")); it.close()
print(v1)
