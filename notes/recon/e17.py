from e1 import load, run
from ptera import probing, tooled
src = '''
def make():
    c = [0]
    d = 5
    def inc(k):
        c[0] += k
        return c[0] + d
    def setd(v):
        nonlocal d
        d = v
    return inc, setd
'''
_, G = load(src, "make")
inc, setd = G["make"]()
t = tooled(inc)
print("tooled:", t(1), inc(0))
setd(50)
print("after setd: tooled", t(0), "orig", inc(0))
with probing("inc > k", env={"inc": inc}).values() as v:
    print("probing:", inc(0)); setd(500); print(inc(0))
src2 = '''
G = 1
def f(x):
    global G
    return G + x
def g(x):
    global G
    G = G + x
    return G
'''
_, G2 = load(src2)
for name in "fg":
    try:
        with probing(f"{name} > x", env=G2).values() as v:
            print(name, run(G2[name], 1))
    except BaseException as e:
        print(name, "FAIL", type(e).__name__, e)
