from e1 import load, run
from ptera import probing
_, G = load("def f(x):\n    for i in range(x):\n        yield i\n")
f = G["f"]
with probing("f > #yield", "f > #receive", "f > #loop_i", "f > #endloop_i", env=G).values() as v1:
    it = f(3); print(next(it), it.send("S")); it.close()
print(v1)
_, G = load("def f(x):\n    a = (b := x)\n    c = [(d := 1)]\n    return (e := 5)\n")
f = G["f"]
with probing("f > b", "f > d", "f > e", env=G).values() as v1:
    f(3)
print(v1)
