from e1 import load, run
from ptera import probing, tooled, Overlay
src = '''
def f(x):
    a = x + 1
    b = a * 2
    a += 3
    for i in range(2):
        b = b + i
    return a + b
'''
_, G = load(src)
f = G["f"]
print(f(1))
with probing("f > a", env=G, overridable=True) as o1:
    o1.override(10)
    with probing("f > a", env=G, overridable=True) as o2:
        o2.override(20)
        with probing("f > a", env=G).values() as seen:
            print("inner o2 wins?", f(1), seen)
with probing("f > a", env=G).values() as seen:
    with probing("f > a", env=G, overridable=True) as o1:
        o1.override(10)
        print("plain outer sees:", f(1), seen)
with probing("f(x) > a", env=G, overridable=True) as o1:
    o1.koverride(lambda x, a: a if a < 5 else 100)   # conditional... always returns
    print(f(1))
with probing("f(x) > a", env=G, overridable=True) as o1:
    o1.where(a=2).override(50)     # declines otherwise
    with probing("f > a", env=G).values() as seen:
        print("conditional:", f(1), seen)
with Overlay.tweaking({"f > i": 7}):
    print("loop tweak:", f(1))
with Overlay.tweaking({"f > #value": 7}):
    print("ret tweak:", f(1))
with Overlay.rewriting({"f(a) > b": lambda args: args["a"] + args["b"]}):
    print("rewrite:", f(1))
# two overlays order
with Overlay.tweaking({"f > x": 1}):
    with Overlay.tweaking({"f > x": 2}):
        with probing("f > x", env=G).values() as seen:
            f(0)
print(seen)
