from e1 import load, run
from ptera import probing, tooled, Overlay, ABSENT, select, global_probe
import gc
def meta(src, sel, driver, name="f"):
    _, G = load(src)
    f = G[name]
    try:
        with probing(*sel, env=G, raw=True) as p:
            ev = []
            p.subscribe(lambda d: ev.append([(c.names[0] if c.names else k, c.values[0]) for k, c in d.items()][0]))
            r = driver(f)
    except BaseException as e:
        return ("FAIL", type(e).__name__, str(e)[:200])
    return r, ev

ALL = ["f > #enter", "f > #exit", "f > #value", "f > #error", "f > #yield", "f > #receive", "f > #loop_i", "f > #endloop_i", "f > $v"]
print(meta("def f(x):\n    for i in range(x):\n        if i == 1:\n            continue\n        if i == 2:\n            break\n    return i\n", ALL, lambda f: run(f, 5)))
print(meta("def f(x):\n    a = 1\n", ALL[:6], lambda f: run(f, 5)))
print(meta("def f(x):\n    try:\n        return 1\n    finally:\n        return 2\n", ALL[:6], lambda f: run(f, 5)))
print(meta("def f(x):\n    raise KeyError(x)\n", ALL[:6], lambda f: run(f, 5)))
print(meta("def f(x):\n    for i in range(x):\n        try:\n            if i == 1:\n                raise KeyError(i)\n        finally:\n            pass\n    return 0\n", ALL[:8], lambda f: run(f, 5)))
def drive_gen(f):
    it = f(3)
    out = [next(it), it.send("S")]
    it.close()
    return out
print(meta("def f(x):\n    for i in range(x):\n        r = yield i\n", ALL[:8], drive_gen))
def drive_gen2(f):
    it = f(3)
    out = [next(it)]
    try:
        it.throw(KeyError("T"))
    except KeyError as e:
        out.append("threw")
    return out
print(meta("def f(x):\n    for i in range(x):\n        r = yield i\n", ALL[:8], drive_gen2))
def drive_gen3(f):
    it = f(3)
    out = [next(it)]
    del it
    gc.collect()
    return out
print(meta("def f(x):\n    for i in range(x):\n        r = yield i\n", ALL[:8], drive_gen3))
def drive_gen4(f):
    return list(f(2))
print(meta("def f(x):\n    for i in range(x):\n        r = yield i\n    return 7\n", ALL[:8], drive_gen4))
print(meta("def f(x):\n    r = yield from range(x)\n    return r\n", ALL[:8], drive_gen4))
print(meta("def f(x):\n    while x:\n        x -= 1\n    else:\n        pass\n    for i in range(2):\n        for i in range(2):\n            pass\n", ALL[:8], lambda f: run(f, 2)))
print(meta("def f(x):\n    g = lambda: (yield)\n    return 1\n", ALL[:6], lambda f: run(f, 2)))
print(meta("def f(x):\n    def h():\n        return 5\n    return h()\n", ALL[:6], lambda f: run(f, 2)))
