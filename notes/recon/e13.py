import sys
sys.path.insert(0, "/tmp/exp/mods")
import refmod1 as M
from ptera import probing, refstring, select
from ptera.overlay import HandlerCollection

def T(sel, call, env=None):
    try:
        with probing(sel, env=env or vars(M)).values() as v:
            call()
        return v
    except Exception as e:
        return ("FAIL", type(e).__name__, str(e)[:150])

for name, fn, call in [
    ("top", M.top, lambda: M.top(1)),
    ("decorated", M.decorated, lambda: M.decorated(1)),
    ("K.meth", M.K.meth, lambda: M.K().meth(1)),
    ("K.Inner.im", M.K.Inner.im, lambda: M.K.Inner().im(1)),
    ("inner", M.inner_fn, lambda: M.inner_fn(1)),
]:
    try:
        ref = refstring(fn)
    except Exception as e:
        print(name, "refstring FAIL", type(e).__name__, e); continue
    try:
        r = select(ref + " > a", env=vars(M))
        target = r.element.name
    except Exception as e:
        target = ("FAIL", type(e).__name__, str(e)[:100])
    print(name, ref, "resolves->", target, "same:", target is fn, T(ref + " > a", call))
    # during another probe
    with probing(ref + " > a", env=vars(M)).values() as v0:
        try:
            r2 = select(ref + " > a", env=vars(M)).element.name
            print("   during:", r2 is fn or r2, T(ref + " > a", call), v0)
        except Exception as e:
            print("   during FAIL", type(e).__name__, str(e)[:100])
    try:
        r3 = select(ref + " > a", env=vars(M)).element.name
        print("   after:", r3 is fn or r3, T(ref + " > a", call))
    except Exception as e:
        print("   after FAIL", type(e).__name__, str(e)[:100])
