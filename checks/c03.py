"""C03 - call-path selectors fire once per way the path matches the live call stack.

Domain: generated call plans over vlib.family x generated chain/sibling selectors with a
focus.  Oracle: vlib.model_paths.immediate_events (stack embeddings), computed from the plan
alone.  Delivered both through probing() on the raw functions and through
BaseOverlay(Immediate(...)) on tooled copies.
"""

import copy

from vlib import family as F
from vlib import hygiene as HY
from vlib import model_paths as M
from vlib import treegen as T
from vlib.core import PropertyViolation, Recorder, hyp_search, violation_record, h64

PROPERTY = "C03"
RULE = (
    "case = (call plan over fa/fb/fc: <=12/40 nodes, recursion, indirect calls, caught/uncaught raises) x "
    "(chain/sibling selector with focus, depth<=4, distinct capture names) x delivery (probing on raw "
    "functions / BaseOverlay+Immediate on tooled copies) x spelling. Non-trivial = some focus binding has "
    ">=2 embeddings, or a match passes through a `via` frame or an unnamed function, or a sibling capture "
    "changes between two events, or the outermost function is re-entered after returning; distinct by "
    "(plan, selector, delivery)."
)
ASSUMPTIONS = [
    "events of different embeddings of the same binding are compared as a multiset (no order stated)",
    "capture names are distinct (aliases), as the README requires on name clashes",
]

_STATES = None
# the generator member `ga` (driven by list()) takes part with a lower weight
GFNS = ["fa", "fb", "fc", "fa", "fb", "fc", "ga", "ha", "hb"]


def _states():
    global _STATES
    if _STATES is None:
        _STATES = [HY.FnState(f) for f in F.RAW.values()]
    return _STATES


def compare_groups(groups, events, what):
    i = 0
    for gi, g in enumerate(groups):
        got = events[i : i + len(g)]
        if M.multiset(got) != M.multiset(g):
            raise PropertyViolation(
                "events",
                f"{what}: focus binding #{gi}: expected events {g!r}, got {got!r} (stream position {i})",
            )
        i += len(g)
    if i != len(events):
        raise PropertyViolation("events", f"{what}: {len(events) - i} extra event(s): {events[i:]!r}")


def nontrivial_features(sel, roots, groups, trace):
    feats = set()
    if any(len(g) >= 2 for g in groups):
        feats.add("multi-embedding")
    path = M.focus_path(sel)
    if len(path) >= 2:
        feats.add("chain>=2")
    if any(len(c.children) > (1 if c in path[:-1] else 0) for c in path) :
        feats.add("sibling")
    flat = [e for g in groups for e in g]
    if flat:
        feats.add("has-events")
    else:
        feats.add("no-events")
    # sibling capture changing between two events
    sib_keys = set()
    for i, c in enumerate(path):
        nxt = path[i + 1] if i + 1 < len(path) else None
        for chain, node in M._sibling_nodes(c, nxt):
            for cp in node.caps:
                sib_keys.add(cp.alias)
    for k in sib_keys:
        vals = {repr(e.get(k)) for e in flat if k in e}
        if len(vals) >= 2:
            feats.add("sibling-changes")
    # indirect match: an embedding skipping intermediate activations, or via
    def has_via(n):
        return n.get("via") or any(has_via(c) for c in n["pre"] + n["post"])

    if flat and any(has_via(r) for r in roots):
        feats.add("via")
    fns_on_stack = [a for a in trace.acts if a.fn == sel.fn]
    if len([a for a in fns_on_stack if a.parent is None]) >= 2 and flat:
        feats.add("re-entry")
    if any(a.fn == sel.fn and any(b.fn == sel.fn for b in a.ancestors()) for a in trace.acts):
        feats.add("recursive-outer")
    if any(e[2] == "raise" for e in trace.exits):
        feats.add("raises")
    return feats


def _rename(sel, prefix):
    from vlib import selgen as G

    return G.CallN(sel.fn, sel.fntag, tuple(c._replace(alias=prefix + c.alias[1:]) for c in sel.caps),
                   tuple(_rename(ch, prefix) for ch in sel.children))


def check_pair(sel1, sel2, roots, rec=None):
    """Two focused selectors in ONE probe: the stream is the time-ordered merge of both."""
    sel2 = _rename(sel2, "d")
    t1, t2 = T.spelling(sel1), T.spelling(sel2)
    trace = M.simulate(roots)
    timed = M.immediate_events(sel1, trace, with_time=True) + M.immediate_events(sel2, trace, with_time=True)
    timed.sort(key=lambda tg: tg[0])
    groups = []
    last = None
    for t, g in timed:
        if t == last:
            groups[-1] = groups[-1] + g
        else:
            groups.append(list(g))
        last = t
    from ptera import probing
    import copy as _copy

    F.DISPATCH.update(F.RAW)
    try:
        with probing(t1, t2, env=T.env()).values() as vals:
            F.drive(_copy.deepcopy(roots))
        events = list(vals)
    except BaseException as e:
        for s in _states():
            s.force_clean()
        HY.force_global_clean()
        raise PropertyViolation("run", f"probing({t1!r}, {t2!r}) raised {HY.describe_exc(e)}",
                                extra={"bucket": "run:" + HY.exc_bucket(e)})
    try:
        compare_groups(groups, events, f"probing({t1!r}, {t2!r})")
        probs = [p for s in _states() for p in s.is_clean()] + HY.global_state_problems()
        if probs:
            raise PropertyViolation("cleanup", f"after the probe block: {probs}")
    finally:
        for s in _states():
            if s.is_clean():
                s.force_clean()
        if HY.global_state_problems():
            HY.force_global_clean()
    if rec is not None:
        e1 = sum(len(g) for _, g in M.immediate_events(sel1, trace, with_time=True))
        nt = e1 > 0 and len(events) > e1
        rec.case(h64(repr((roots, sel1, sel2))), nt, {"delivery:pair"},
                 sample=lambda: {"plan": T.plan_brief(roots), "selectors": [t1, t2], "events": events[:6]})


def handoff_trace(hand):
    """Reference trace of `gst(S); gco(C)`: the generator G is started inside S (its first segment
    runs under S) and advanced inside C (its second segment runs under C).  The one real
    activation of G is modelled as two Acts, G1 under S and G2 under C; G2 inherits the latest
    bindings of G1 (copies whose times are returned so that they are not taken for events)."""
    tr = M.Trace()
    S, C, Gn = hand["s"], hand["c"], hand["g"]

    def enter(node, fn, parent):
        act = M.Act(len(tr.acts), fn, parent, node)
        tr.acts.append(act)
        tr.binds.append(M.Bind(tr.tick(), act, "#enter", True))
        tr.binds.append(M.Bind(tr.tick(), act, "node", node))
        tr.binds.append(M.Bind(tr.tick(), act, "u", node["u0"]))
        tr.binds.append(M.Bind(tr.tick(), act, "w", node["w0"]))
        return act

    def leave(act, node):
        tr.binds.append(M.Bind(tr.tick(), act, "#value", node["ret"]))
        tr.binds.append(M.Bind(tr.tick(), act, "#exit", True))
        tr.exits.append((tr.tick(), act, "return", node["ret"]))

    s_act = enter(S, "gst", None)
    g1 = enter(Gn, "ga", s_act)
    M.simulate(Gn["pre"], base=g1, trace=tr)
    tr.binds.append(M.Bind(tr.tick(), g1, "#yield", Gn["u0"]))
    M.simulate(S["pre"], base=s_act, trace=tr)
    leave(s_act, S)
    c_act = enter(C, "gco", None)
    M.simulate(C["pre"], base=c_act, trace=tr)
    g2 = M.Act(len(tr.acts), "ga", c_act, Gn)
    tr.acts.append(g2)
    copies = set()
    for var in ("node", "u", "w"):
        last = [b for b in tr.binds if b.act is g1 and b.var == var][-1]
        t = tr.tick()
        copies.add(t)
        tr.binds.append(M.Bind(t, g2, var, last.value))
    tr.binds.append(M.Bind(tr.tick(), g2, "#receive", None))
    if Gn["ru"] is not None:
        tr.binds.append(M.Bind(tr.tick(), g2, "u", Gn["ru"]))
    if Gn["rw"] is not None:
        tr.binds.append(M.Bind(tr.tick(), g2, "w", Gn["rw"]))
    M.simulate(Gn["post"], base=g2, trace=tr)
    tr.binds.append(M.Bind(tr.tick(), g2, "#yield", Gn["rw"] if Gn["rw"] is not None else Gn["w0"]))
    tr.binds.append(M.Bind(tr.tick(), g2, "#receive", None))
    leave(g2, Gn)
    M.simulate(C["post"], base=c_act, trace=tr)
    leave(c_act, C)
    return tr, copies


def check_handoff(sel, hand, rec=None):
    """A generator started by one activation and advanced by another: the calls the starter and
    the consumer make themselves - before and after touching the generator - must match
    call-path selectors exactly as if no generator were around."""
    from ptera import probing
    import copy as _copy

    text = T.spelling(sel)
    trace, copies = handoff_trace(hand)
    from vlib import selgen as G

    fkey = G.focus_cap(sel).alias
    # Only bindings made by the starter, the consumer and the calls *they* make form a call tree
    # in the sense of the property.  What the generator's own frame (and calls made from it)
    # should match after it changed hands is not stated by C03: those events (node ids < 100)
    # are left out on both sides.
    own = lambda ev: ev[fkey] // 10 >= 100  # noqa
    groups = [[e for e in g if own(e)] for t, g in M.immediate_events(sel, trace, with_time=True) if t not in copies]
    groups = [g for g in groups if g]
    box = []
    roots = _copy.deepcopy([dict(hand["s"], fn="gst", g=hand["g"]), dict(hand["c"], fn="gco")])
    roots[0]["box"] = roots[1]["box"] = box
    F.DISPATCH.update(F.RAW)
    try:
        # the second selector only serves to have the generator function instrumented
        with probing(text, "ga(!u as zz)", env=T.env()).values() as vals:
            for r in roots:
                F.DISPATCH[r["fn"]](r)
        events = [e for e in vals if fkey in e and own(e)]
    except BaseException as e:
        for s in _states():
            s.force_clean()
        HY.force_global_clean()
        raise PropertyViolation("run", f"handoff under probing({text!r}) raised {HY.describe_exc(e)}",
                                extra={"bucket": "run:" + HY.exc_bucket(e)})
    finally:
        box.clear()
    try:
        compare_groups(groups, events, f"generator started in gst, advanced in gco; probing({text!r}) "
                                       f"[generator {T.plan_brief([hand['g']])}, starter {T.plan_brief([hand['s']])}, "
                                       f"consumer {T.plan_brief([hand['c']])}]")
        probs = [p for s in _states() for p in s.is_clean()] + HY.global_state_problems()
        if probs:
            raise PropertyViolation("cleanup", f"after the probe block: {probs}")
    finally:
        for s in _states():
            if s.is_clean():
                s.force_clean()
        if HY.global_state_problems():
            HY.force_global_clean()
    if rec is not None:
        flat = [e for g in groups for e in g]
        second = any(b.act.parent is not None and any(a.fn == "gco" for a in b.act.ancestors())
                     and any(a.fn == "ga" for a in [b.act] + list(b.act.ancestors()))
                     for b in trace.binds)
        rec.case(h64(repr((hand, sel))), bool(flat) and second, {"delivery:handoff"} | ({"has-events"} if flat else {"no-events"}),
                 sample=lambda: {"generator": T.plan_brief([hand["g"]]), "selector": text, "events": flat[:6]})


def check_case(sel, roots, delivery, choices, rec=None):
    if delivery == "pair":
        return check_pair(sel[0], sel[1], roots, rec)
    if delivery == "handoff":
        return check_handoff(sel, roots, rec)
    text = T.spelling(sel, choices)
    trace = M.simulate(roots)
    groups = M.immediate_events(sel, trace)
    expected_out = []
    for r in roots:
        e = M.escaping(r)
        expected_out.append(("boom", e) if e is not None else ("ret", M.call_result(r)))
    try:
        if delivery == "probing":
            events, out = T.run_probing(text, roots)
        else:
            events, out = T.run_overlay(text, roots)
    except BaseException as e:
        for s in _states():
            s.force_clean()
        HY.force_global_clean()
        raise PropertyViolation(
            "run", f"{delivery} of {text!r} raised {HY.describe_exc(e)}", extra={"bucket": "run:" + HY.exc_bucket(e)}
        )
    try:
        if out != expected_out:
            raise PropertyViolation("outcome", f"driver outcomes {out!r}, expected {expected_out!r}")
        compare_groups(groups, events, f"{delivery}({text!r})")
        if delivery == "probing":
            probs = [p for s in _states() for p in s.is_clean()] + HY.global_state_problems()
            if probs:
                raise PropertyViolation("cleanup", f"after the probe block: {probs}")
    finally:
        for s in _states():
            if s.is_clean():
                s.force_clean()
        if HY.global_state_problems():
            HY.force_global_clean()
    if rec is not None:
        feats = nontrivial_features(sel, roots, groups, trace)
        nt = bool(feats & {"multi-embedding", "via", "sibling-changes", "re-entry"}) and "has-events" in feats
        feats.add("delivery:" + delivery)
        rec.case(
            h64(repr((roots, sel, delivery))),
            nt,
            feats,
            sample=lambda: {
                "plan": T.plan_brief(roots),
                "selector": text,
                "delivery": delivery,
                "events": [e for g in groups for e in g][:6],
            },
        )


def _payload(sel, roots, delivery, choices):
    return {"selector": repr(sel), "plan": roots, "delivery": delivery, "choices": list(choices or [])}


def replay(payload):
    from vlib import selgen as G

    sel = eval(payload["selector"], {"CallN": G.CallN, "Cap": G.Cap})
    try:
        check_case(sel, payload["plan"], payload["delivery"], payload["choices"] or None)
    except PropertyViolation as v:
        return [{"clause": v.clause, "detail": v.detail}]
    return []


def plan(tier, seed, scale):
    if tier == "quick":
        return [{"examples": int(1200 * scale), "nodes": 12, "depth": 5} for _ in range(16)]
    return [{"examples": int(9000 * scale), "nodes": 12 if i % 2 else 40, "depth": 5 if i % 2 else 7}
            for i in range(32)]


def shard(cfg):
    from hypothesis import strategies as st

    rec = Recorder()
    strat = st.tuples(
        T.selector_strategy(max_depth=4, focus="yes", fns=GFNS),
        T.plan_strategy(max_nodes=cfg["nodes"], max_depth=cfg["depth"], fns=GFNS),
        st.sampled_from(["probing", "overlay"]),
        st.one_of(st.none(), st.lists(st.integers(0, 3), min_size=4, max_size=12)),
    )

    pair = st.tuples(
        st.tuples(T.selector_strategy(max_depth=3, focus="yes", fns=GFNS), T.selector_strategy(max_depth=2, focus="yes", fns=GFNS)),
        T.plan_strategy(max_nodes=cfg["nodes"], max_depth=cfg["depth"], fns=GFNS),
        st.just("pair"),
        st.none(),
    )
    def renum(node, base):
        k = [base]

        def walk(n):
            nid = k[0]
            k[0] += 1
            n = dict(n, id=nid, u0=nid * 10 + 1, w0=nid * 10 + 5, ret=nid * 10 + 9,
                     ru=(nid * 10 + 2) if n["ru"] is not None else None,
                     rw=(nid * 10 + 6) if n["rw"] is not None else None, raises=False)
            n["pre"] = [walk(c) for c in n["pre"]]
            n["post"] = [walk(c) for c in n["post"]]
            return n

        return walk(node)

    small = T.plan_strategy(max_nodes=4, max_depth=3, fns=["fa", "fb", "fc"], raising=False).map(lambda r: r[0])
    hand = st.tuples(small, small, small).map(
        # (the generator itself makes no calls and is never named by the selector: what its own
        # frame should match after it changed hands is not stated by the property)
        lambda t: {"g": renum(dict(t[0], fn="ga", pre=[], post=[]), 0), "s": renum(dict(t[1], fn="gst", post=[]), 100),
                   "c": renum(dict(t[2], fn="gco"), 200)})
    handoff = st.tuples(
        T.selector_strategy(max_depth=3, focus="yes", fns=["gst", "gco", "fa", "fb", "fc", "gco"]),
        hand, st.just("handoff"), st.none())
    strat = st.one_of(strat, strat, strat, strat, strat, pair, pair, handoff)

    def body(case):
        sel, roots, delivery, choices = case
        check_case(sel, roots, delivery, choices, rec)

    n, v, herr = hyp_search(strat, body, seed=cfg["seed"] * 1000 + cfg["shard"], max_examples=cfg["examples"], case_cpu_s=30.0)
    res = rec.result()
    if v is not None:
        res["violations"] = [violation_record(PROPERTY, v, _payload(*v.case))]
    if herr:
        res["harness_errors"] = [herr]
    return res
