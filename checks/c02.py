"""C02 - a probe's stream is exactly the binding history of its focus variable.

Oracle: the reference *twin* of the generated program (vlib.progen rendering B) records every
binding with plain Python semantics; the expected stream for `f(c1, c2) > v` is, for every
binding of v in the twin's trace, {v: value} plus the latest value of each context variable
bound so far.  It is compared, as an exact sequence, with probing(...).values() on the real
function.
"""

import sys

from vlib import hygiene as HY
from vlib import progen as PG
from vlib import prorun as PR
from vlib.core import PropertyViolation, Recorder, hyp_search, violation_record, h64
from checks import c01

PROPERTY = "C02"
RULE = (
    "case = generated function (same program space as C01) x input x driver script x focus variable v among "
    "the names the function's own body binds (parameters and locals, every binding form of the statement) x "
    "0-3 context variables among its parameters, locals, read-only globals (incl. one holding None) and closure "
    "variables x optional second probe on other variables of the same function whose life overlaps the main "
    "one (fifo / inner / late order). "
    "Non-trivial = v is bound >=2 times by >=2 different binding forms, or inside a loop / handler / with, "
    "or the call ends by an exception after >=1 binding of v; distinct by (source, input, script, v, contexts)."
)
ASSUMPTIONS = [
    "when focus and a context variable are both parameters, presence of the context in the entry event is a don't-care (the property does not order parameters)",
    "names declared global/nonlocal, def/class-bound names and comprehension variables are never chosen as focus",
    "values are compared by repr with object addresses normalised",
]


def expected_stream(trace, focus, contexts, const_ctx, fn):
    params = {p[0] for p in fn["params"]}
    latest = dict(const_ctx)
    out = []
    entry_done = False
    for item in trace:
        if item[0] != "bind":
            continue
        _, name, value = item
        if name.startswith("#"):
            continue
        latest[name] = value
        if name == focus:
            ev = {focus: value}
            for c in contexts:
                if c in latest:
                    ev[c] = latest[c]
            is_entry = focus in params and not entry_done
            entry_done = True
            out.append((ev, is_entry))
    return out


def check_case(fn, recipe, script, focus, contexts, rec=None, other=None):
    """`other` = (order, names): a second probe on other variables of the same function whose
    life overlaps the main probe's activation without being nested in it:
      'fifo'  other on, main on, other off, call, main off
      'inner' main on, other on, other off, call, main off
      'late'  main on, other on, call, main off, other off
    or ('raw', []): a single probe in raw mode whose events are read after the run."""
    from ptera import probing

    src = PG.render(fn)
    twin_src = PG.render(fn, twin=True)
    H = PR.Hooks()
    f2, g2 = PR.load(twin_src, extra={"H": H})
    try:
        twin_out = PR.run_call(f2, fn, recipe, g2, script)
    finally:
        PR.forget(g2)
    const_ctx = {}
    for c in contexts:
        if c in ("G1", "G2", "GN"):
            const_ctx[c] = {"G1": 100, "G2": 200, "GN": None}[c]
        if c == "cl":
            const_ctx[c] = 7
    want = expected_stream(H.trace, focus, contexts, const_ctx, fn)
    f, glb = PR.load(src)
    sel = f"f({', '.join(contexts)}) > {focus}" if contexts else f"f > {focus}"
    try:
        with PR.time_limit(3.0):
            if other is None:
                with probing(sel, env={"f": f}).values() as got:
                    out = PR.run_call(f, fn, recipe, glb, script)
            elif other[0] == "raw":
                # raw mode: the events are mappings of Capture objects, kept and read only
                # after the run - each must still be a record of the moment it was delivered
                with probing(sel, env={"f": f}, raw=True).values() as rawgot:
                    out = PR.run_call(f, fn, recipe, glb, script)
                got = [{k: cap.value for k, cap in ev.items()} for ev in rawgot]
            else:
                order, onames = other
                main = probing(sel, env={"f": f})
                got = main.accum()
                oth = probing(*[f"f > {n}" for n in onames], env={"f": f})
                oth.accum()
                try:
                    if order == "fifo":
                        oth.__enter__()
                        main.__enter__()
                        oth.__exit__(None, None, None)
                        out = PR.run_call(f, fn, recipe, glb, script)
                        main.__exit__(None, None, None)
                    elif order == "inner":
                        main.__enter__()
                        oth.__enter__()
                        oth.__exit__(None, None, None)
                        out = PR.run_call(f, fn, recipe, glb, script)
                        main.__exit__(None, None, None)
                    else:
                        main.__enter__()
                        oth.__enter__()
                        out = PR.run_call(f, fn, recipe, glb, script)
                        main.__exit__(None, None, None)
                        oth.__exit__(None, None, None)
                finally:
                    if HY.global_state_problems():
                        HY.force_global_clean()
    except PR.Timeout:
        HY.force_global_clean()
        raise PropertyViolation("hang", f"probing({sel!r}) run did not finish within 3 s of CPU time\n{src}")
    except BaseException as e:
        if isinstance(e, (KeyboardInterrupt, SystemExit)):
            raise
        HY.force_global_clean()
        raise PropertyViolation(
            "activation", f"probing({sel!r}) (second probe: {other!r}) raised {HY.describe_exc(e)}\n{src}",
            extra={"bucket": "activation:" + HY.exc_bucket(e)},
        )
    finally:
        PR.forget(glb)
    params = {p[0] for p in fn["params"]}
    pctx = [c for c in contexts if c in params]
    got = list(got)

    def norm(ev, entry):
        d = {k: PR.nrepr(v) for k, v in ev.items()}
        if entry:
            for c in pctx:
                d.pop(c, None)
        return d

    w = [norm(ev, entry) for ev, entry in want]
    g = [norm(ev, i < len(want) and want[i][1]) for i, ev in enumerate(got)]
    if w != g:
        i = next((k for k in range(min(len(w), len(g))) if w[k] != g[k]), min(len(w), len(g)))
        raise PropertyViolation(
            "stream",
            f"probing({sel!r}) (second probe: {other!r}) input {recipe!r} script {script!r}: {len(g)} events, expected {len(w)}; first "
            f"difference at #{i}: expected {w[i] if i < len(w) else None}, got {g[i] if i < len(g) else None}\n"
            f"expected {w}\n     got {g}\n{src}",
            extra={"bucket": "stream:" + ("missing" if len(g) < len(w) else "extra" if len(g) > len(w) else "value")},
        )
    if rec is not None:
        bn = PG.bound_names(fn)
        forms = bn.get(focus, set())
        nb = len(want)
        nt = (nb >= 2 and len(forms) >= 2) or (nb >= 1 and forms & {"for", "with", "except", "walrus", "import",
                                                                     "yieldassign", "tuple"}) \
            or (nb >= 1 and twin_out["result"][0] == "exc")
        feats = {"form:" + x for x in forms} | {f"contexts:{len(contexts)}", f"bindings:{min(nb, 5)}",
                                                "outcome:" + twin_out["result"][0],
                                                "second-probe:" + (other[0] if other else "none")}
        rec.case(h64(repr((src, recipe, script, focus, contexts, other))), bool(nt), feats,
                 sample=lambda: {"source": src, "input": recipe, "selector": sel, "events": w[:5]})


def replay(payload):
    fn = payload["fn"]
    fn["params"] = [tuple(p) for p in fn["params"]]
    fn["body"] = c01._tuplify(fn["body"])
    fn["closure"] = [tuple(c) for c in fn.get("closure") or []]
    recipe = {k: (v[0], v[1]) for k, v in payload["recipe"].items()}
    script = [tuple(s) for s in payload["script"]]
    try:
        other = payload.get("other")
        check_case(fn, recipe, script, payload["focus"], payload["contexts"],
                   other=(other[0], list(other[1])) if other else None)
    except PropertyViolation as v:
        return [{"clause": v.clause, "detail": v.detail}]
    return []


def strategy(flags=None):
    from hypothesis import strategies as st

    fns = PG.functions(flags)
    scripts = PR.scripts()

    @st.composite
    def cases(draw):
        fn = draw(fns)
        recipe = PG.draw_inputs(draw, fn)
        script = draw(scripts) if fn["gen"] else []
        bn = PG.bound_names(fn)
        decl = PG.declared_scope_names(fn)
        cands = sorted(n for n in bn if n not in decl and not n.startswith("g_"))
        focus = cands[draw(st.integers(0, len(cands) - 1))]
        pool = [n for n in cands if n != focus]
        # read-only globals / closure variables only: a name the function declares global or
        # nonlocal and assigns is not an entry-time constant
        ext = [n for n in c01.external_names(fn) if n in ("G1", "G2", "GN") and n not in decl]
        if fn.get("closure") and "cl" not in decl and any(e == ("var", "cl") for e in PG.walk_exprs(fn["body"])):
            ext.append("cl")
        pool = pool * 2 + ext
        contexts = []
        for _ in range(draw(st.integers(0, 3))):
            if not pool:
                break
            c = pool[draw(st.integers(0, len(pool) - 1))]
            if c not in contexts:
                contexts.append(c)
        other = None
        if draw(st.integers(0, 7)) == 0:
            other = ("raw", [])
        elif draw(st.integers(0, 3)) == 0:
            opool = [n for n in cands if n != focus] or [focus]
            onames = []
            for _ in range(draw(st.integers(1, 2))):
                c = opool[draw(st.integers(0, len(opool) - 1))]
                if c not in onames:
                    onames.append(c)
            other = (draw(st.sampled_from(["fifo", "inner", "late"])), onames)
        return fn, recipe, script, focus, contexts, other

    return cases()


def plan(tier, seed, scale):
    if tier == "quick":
        return [{"examples": int(800 * scale)} for _ in range(16)]
    return [{"examples": int(12000 * scale)} for _ in range(32)]


def shard(cfg):
    sys.unraisablehook = lambda *a, **k: None
    rec = Recorder()

    def body(case):
        fn, recipe, script, focus, contexts, other = case
        check_case(fn, recipe, script, focus, contexts, rec=rec, other=other)

    n, v, herr = hyp_search(strategy(c01.flags()), body, seed=cfg["seed"] * 1000 + cfg["shard"],
                            max_examples=cfg["examples"])
    res = rec.result()
    if v is not None:
        fn, recipe, script, focus, contexts, other = v.case
        res["violations"] = [violation_record(PROPERTY, v, {"fn": fn, "recipe": recipe, "script": script,
                                                            "focus": focus, "contexts": contexts, "other": other,
                                                            "source": PG.render(fn)})]
    if herr:
        res["harness_errors"] = [herr]
    return res
