"""C01 - instrumentation is transparent when nothing is overridden.

Differential oracle: the generated program is exec'd twice into fresh globals; one copy is
called untouched, the other after being instrumented (tooled copy, in-place tooling, probes
on a generated subset of its variables, nested probes, a generic overlay on a tooled copy,
a total probe).  The outcome tuples must be equal: returned value / raised exception type
and args / yield-receive steps of the driver script / ordered side-effect log / final
state of mutable arguments / final module globals.  Failing to instrument at all is a
violation too.  After a probe block the function must be back on its original code.
"""

import sys

from vlib import hygiene as HY
from vlib import progen as PG
from vlib import prorun as PR
from vlib.core import PropertyViolation, Recorder, hyp_search, violation_record, h64

PROPERTY = "C01"
RULE = (
    "case = generated function (progen IR: <=10 statements, nesting<=3; assignments to names/tuples/nested "
    "tuples/starred/list targets/attributes/subscripts, chained, augmented, annotated, for/while/if/try/"
    "with, walrus, imports, nested def/class/lambda/comprehensions, return/yield/yield from, raise, del, "
    "assert) x input recipe (ints, lists, tuples, generators, iterators, dicts, strings, objects) x driver "
    "script for generators (next/send/throw/close/drop) x instrumentation configuration (tooled copy, "
    "in-place, probing on a generated subset of names incl. meta-variables and externals, two nested "
    "probes, generic overlay, total probe, probe ended before step k of a still-alive generator). Non-trivial = the program uses >=1 form beyond plain name "
    "assignment/return (loop, try, with, unpack, walrus, import, nested scope, attribute/subscript store, "
    "generator) and the configuration instruments >=1 name the function binds; distinct by (source, "
    "input, script, configuration)."
)
ASSUMPTIONS = [
    "exceptions are compared by type and args; UnboundLocalError/NameError are one family and their text is not compared",
    "bare annotations and globals rebound during the call are excluded by the property itself and are not generated",
    "object addresses inside reprs are normalised",
]

INTERESTING = {"for", "while", "try", "with", "unpack", "walrus", "import", "def", "class", "lam", "comp",
               "attr-store", "sub-store", "generator", "chained", "aug", "genexp", "starred", "nested-unpack"}


def external_names(fn):
    out = set()
    for e in PG.walk_exprs(fn["body"]):
        if e[0] == "E":
            out.add("E")
        elif e[0] == "len":
            out.add("len")
        elif e[0] == "var" and e[1] in ("G1", "G2", "GN"):
            out.add(e[1])
        elif e[0] == "range":
            out.add("range")
        elif e[0] == "call" and e[1] in ("enumerate", "zip2"):
            out.add(e[1])
    for s in PG.walk_stmts(fn["body"]):
        if s[0] == "with":
            out.add("CM")
        if s[0] == "raise":
            out.add("Boom")
    return out


def selectable_names(fn):
    bn = PG.bound_names(fn)
    names = sorted(n for n in bn if n not in PG.declared_scope_names(fn))
    metas = ["#enter", "#exit", "#value", "#error"]
    if fn["gen"]:
        metas += ["#yield", "#receive"]
    for s in PG.walk_stmts(fn["body"]):
        if s[0] == "for":
            for n in PG.target_names(s[1]):
                metas += [f"#loop_{n}", f"#endloop_{n}"]
    ext = sorted(external_names(fn))
    if fn.get("closure"):
        ext.append("cl") if any(e == ("var", "cl") for e in PG.walk_exprs(fn["body"])) else None
    return names, sorted(set(metas)), ext


def draw_config(draw, fn):
    from hypothesis import strategies as st

    names, metas, ext = selectable_names(fn)
    pool = names * 3 + metas + ext or ["#enter"]

    def subset():
        n = draw(st.integers(1, 4))
        out = []
        for _ in range(n):
            v = pool[draw(st.integers(0, len(pool) - 1))]
            if v not in out:
                out.append(v)
        return out

    kinds = ["tooled", "inplace", "probing", "probing", "nested", "overlay-generic", "total"]
    if fn["gen"]:
        # the probe ends while the generator object is still alive (created but not started, or
        # suspended at a yield); the rest of the script runs after the deactivation
        kinds += ["probing-leave", "probing-leave", "nested-leave"]
    kind = draw(st.sampled_from(kinds))
    if kind == "probing-leave":
        return (kind, subset(), draw(st.integers(0, 2)))
    if kind == "nested-leave":
        return (kind, subset(), subset(), draw(st.integers(0, 2)))
    if kind in ("tooled", "inplace", "overlay-generic"):
        return (kind,)
    if kind == "probing":
        return ("probing", subset())
    if kind == "nested":
        return ("nested", subset(), subset())
    s = subset()
    return ("total", [n for n in s if not n.startswith("#loop") and not n.startswith("#endloop")] or ["#enter"])


def instrument_and_run(fn, src, recipe, script, config):
    """Run the instrumented copy.  Returns (outcome, post-problems)."""
    import ptera
    from ptera import probing
    from ptera.interpret import Immediate
    from ptera.overlay import BaseOverlay

    f, glb = PR.load(src)
    if fn.get("closure"):
        # the function object only lives in the factory's return value, not under its own
        # name in the module namespace
        glb["f_alias"] = glb.pop("f")
    names_before = set(glb)
    original = f.__code__
    kind = config[0]
    problems = []
    try:
        if kind == "tooled":
            g = ptera.tooled(f)
            out = PR.run_call(g, fn, recipe, glb, script)
        elif kind == "inplace":
            ptera.tooled.inplace(f)
            out = PR.run_call(f, fn, recipe, glb, script)
        elif kind == "probing":
            sels = [f"f > {n}" for n in config[1]]
            with probing(*sels, env={"f": f}):
                out = PR.run_call(f, fn, recipe, glb, script)
            if f.__code__ is not original:
                problems.append("after the probe block f.__code__ is not the original code object")
        elif kind == "nested":
            with probing(*[f"f > {n}" for n in config[1]], env={"f": f}):
                with probing(*[f"f > {n}" for n in config[2]], env={"f": f}):
                    out = PR.run_call(f, fn, recipe, glb, script)
            if f.__code__ is not original:
                problems.append("after the probe blocks f.__code__ is not the original code object")
        elif kind == "probing-leave":
            import contextlib

            with contextlib.ExitStack() as es:
                es.enter_context(probing(*[f"f > {n}" for n in config[1]], env={"f": f}))
                out = PR.run_call(f, fn, recipe, glb, script, leave=es.close, leave_at=config[2])
            if f.__code__ is not original:
                problems.append("after the probe block f.__code__ is not the original code object")
        elif kind == "nested-leave":
            import contextlib

            # the inner probe ends first, while the generator is alive; the outer one stays
            with probing(*[f"f > {n}" for n in config[1]], env={"f": f}):
                with contextlib.ExitStack() as es:
                    es.enter_context(probing(*[f"f > {n}" for n in config[2]], env={"f": f}))
                    out = PR.run_call(f, fn, recipe, glb, script, leave=es.close, leave_at=config[3])
            if f.__code__ is not original:
                problems.append("after the probe blocks f.__code__ is not the original code object")
        elif kind == "overlay-generic":
            g = ptera.tooled(f)
            seen = []
            with BaseOverlay(Immediate(ptera.select("f > $x", env={"f": g}), trigger=seen.append)):
                out = PR.run_call(g, fn, recipe, glb, script)
        elif kind == "total":
            sel = "f(" + ", ".join(config[1]) + ")"
            with probing(sel, env={"f": f}, raw=True):
                out = PR.run_call(f, fn, recipe, glb, script)
            if f.__code__ is not original:
                problems.append("after the probe block f.__code__ is not the original code object")
        else:
            raise ValueError(config)
        stray = sorted(n for n in set(glb) - names_before
                       if not (n.startswith("__ptera_") or n.startswith("_ptera__") or n.startswith("#")))
        if stray:
            problems.append(f"instrumentation left new names in the module namespace: {stray} "
                            f"(values {[glb[n] for n in stray]!r})")
    finally:
        if HY.global_state_problems():
            HY.force_global_clean()
        PR.forget(glb)
    return out, problems


def check_case(fn, recipe, script, config, rec=None):
    src = PG.render(fn)
    f0, g0 = PR.load(src)
    try:
        base = PR.run_call(f0, fn, recipe, g0, script)
    finally:
        PR.forget(g0)
    try:
        with PR.time_limit(3.0):
            out, problems = instrument_and_run(fn, src, recipe, script, config)
    except PR.Timeout:
        HY.force_global_clean()
        raise PropertyViolation(
            "hang",
            f"the instrumented run under {config!r} did not finish within 3 s of CPU time (the untouched call returned "
            f"immediately)\n{src}",
        )
    except BaseException as e:
        if isinstance(e, (KeyboardInterrupt, SystemExit)):
            raise
        raise PropertyViolation(
            "instrumentation-failed",
            f"instrumenting/running under {config!r} raised {HY.describe_exc(e)}\n{src}",
            extra={"bucket": "instr:" + HY.exc_bucket(e)},
        )
    a, b = PR.comparable(base), PR.comparable(out)
    if a != b:
        names = ["result", "generator steps", "side-effect log", "mutable arguments", "globals"]
        diff = [f"{n}: untouched {x!r} vs instrumented {y!r}" for n, x, y in zip(names, a, b) if x != y]
        raise PropertyViolation(
            "differs",
            f"config {config!r}, input {recipe!r}, script {script!r}:\n" + "\n".join(diff) + "\n" + src,
            extra={"bucket": "differs:" + names[[x != y for x, y in zip(a, b)].index(True)] + ":" + str(a[0][:2]) + "/" + str(b[0][:2])},
        )
    if problems:
        raise PropertyViolation("residue", "; ".join(problems) + "\n" + src)
    if rec is not None:
        feats = PG.features(fn)
        bn = PG.bound_names(fn)
        instruments = config[0] in ("tooled", "inplace", "overlay-generic") or any(
            n in bn for part in config[1:] if isinstance(part, list) for n in part
        )
        nt = bool(feats & INTERESTING) and instruments
        feats = set(feats) | {"config:" + config[0], "outcome:" + base["result"][0]}
        rec.case(h64(repr((src, recipe, script, config))), nt, feats,
                 sample=lambda: {"source": src, "input": recipe, "script": script if fn["gen"] else None,
                                 "config": list(config), "outcome": list(base["result"])})


def replay(payload):
    fn = payload["fn"]
    fn["params"] = [tuple(p) for p in fn["params"]]
    fn["body"] = _tuplify(fn["body"])
    fn["closure"] = [tuple(c) for c in fn.get("closure") or []]
    recipe = {k: tuple(v) if isinstance(v, list) else v for k, v in payload["recipe"].items()}
    recipe = {k: (v[0], v[1]) for k, v in recipe.items()}
    script = [tuple(s) for s in payload["script"]]
    config = tuple(payload["config"])
    try:
        check_case(fn, recipe, script, config)
    except PropertyViolation as v:
        return [{"clause": v.clause, "detail": v.detail}]
    return []


def _tuplify(x):
    """JSON round trip: the IR uses tuples for nodes and lists for sequences of nodes; a node
    is a list whose first element is a string tag."""
    if isinstance(x, list):
        if x and isinstance(x[0], str) and x[0] in _TAGS:
            return tuple(_tuplify(y) for y in x)
        return [_tuplify(y) for y in x]
    return x


_TAGS = {"int", "var", "bin", "cmp", "E", "len", "walrus", "ifexp", "idx", "list", "tuple", "lam", "comp", "genexp", "gsum", "lam2", "mlstr",
         "dict", "str", "range", "attr", "call", "neg", "n", "t", "l", "star", "sub", "assign", "aug", "ann", "for",
         "while", "if", "try", "with", "import", "def", "class", "expr", "return", "raise", "yield", "yieldassign",
         "yieldfrom", "break", "continue", "pass", "del", "assert", "global", "nonlocal", "declin", "anntarget", "doc"}


def payload_of(case):
    fn, recipe, script, config = case
    return {"fn": fn, "recipe": recipe, "script": script, "config": list(config), "source": PG.render(fn)}


def strategy(flags=None):
    from hypothesis import strategies as st

    fns = PG.functions(flags)
    scripts = PR.scripts()

    @st.composite
    def cases(draw):
        fn = draw(fns)
        recipe = PG.draw_inputs(draw, fn)
        script = draw(scripts) if fn["gen"] else []
        config = draw_config(draw, fn)
        return fn, recipe, script, config

    return cases()


def flags():
    return PG.Flags(global_decl=True, nonlocal_decl=True, walrus_in_genexp=True)


def plan(tier, seed, scale):
    if tier == "quick":
        return [{"examples": int(800 * scale)} for _ in range(16)]
    return [{"examples": int(12000 * scale)} for _ in range(32)]


def shard(cfg):
    sys.unraisablehook = lambda *a, **k: None
    rec = Recorder()

    def body(case):
        check_case(*case, rec=rec)

    n, v, herr = hyp_search(strategy(flags()), body, seed=cfg["seed"] * 1000 + cfg["shard"],
                            max_examples=cfg["examples"])
    res = rec.result()
    if v is not None:
        res["violations"] = [violation_record(PROPERTY, v, payload_of(v.case))]
    if herr:
        res["harness_errors"] = [herr]
    return res
