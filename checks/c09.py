"""C09 - a suspended generator does not leak its call-path context to its caller.

Histories over {enter overlay, leave overlay, create generator, next, close, drop, plain call
from the driver}, with the driver running at top level or inside an instrumented function
`fd` (so that enclosing selectors exist).  Overlays are BaseOverlay(Immediate(...)) on tooled
copies with their own sinks, so that handlers of an ended with-block stay observable.

Oracle = leak-free context model: one global trace with logical parents (driver calls under
the driver's activation; generator-body calls under the generator's activation, whose parent
is the driver); every event is attributed to the plan node that produced it (values are
unique per node).  Events caused by the *driver's own calls* must equal the model's exactly
for every overlay, open or ended.  Events caused by generator bodies are compared only for
overlays that were open when that generator started and still are (what a generator that
outlives or predates an overlay should report is not stated by the property: don't-care).
At top level the installed handler pairs must be exactly those of the open overlays after
every step.
"""

import copy
import gc

from vlib import family as F
from vlib import hygiene as HY
from vlib import model_paths as M
from vlib import selgen as G
from vlib import treegen as T
from vlib.core import PropertyViolation, Recorder, hyp_search, violation_record, h64

PROPERTY = "C09"
RULE = (
    "(the generator receives through an unpacking assignment and, per instance, may absorb GeneratorExit or enter "
    "an overlay itself; overlays are BaseOverlay handlers on tooled copies or, in half of the cases, probes on the "
    "raw functions) "
    "history = list (<=20 quick / <=45 thorough ops) over {enter overlay k (5 specs incl. ga>fc>u, fc>u, "
    "fb>fc>u, ga>u, ga(w)>fc>u), leave innermost overlay, create generator ga(plan), next i, close i, drop i, "
    "throw into a generator suspended at its first yield, driver call of a plan over fa/fb/fc} x driver placement (top level / inside instrumented fd under an "
    "enclosing fd>fc>u overlay). evaluations = operations applied. Non-trivial = a driver call happens "
    "while >=1 generator is suspended, or generators finish in non-LIFO order, or a generator outlives its "
    "overlay; distinct by history hash."
)
ASSUMPTIONS = [
    "events produced by a generator body for overlays that do not span the generator's life so far are don't-care",
    "yield-from delegation is not part of the property's operation set and is not generated; throw() is only generated at the first yield, where the family generator absorbs the error and yields again",
]


def _c(fn, caps=(), children=()):
    return G.CallN(fn, None, tuple(caps), tuple(children))


def _cap(name, alias, focus=0):
    return G.Cap(name, alias, None, None, "=", focus)


SPECS = [
    _c("ga", [], [_c("fc", [_cap("u", "a0", 1)])]),
    _c("fc", [_cap("u", "b0", 1)]),
    _c("fb", [], [_c("fc", [_cap("u", "c0", 1)])]),
    _c("ga", [_cap("u", "d0", 1)]),
    _c("ga", [_cap("w", "e0")], [_c("fc", [_cap("u", "e1", 1)])]),
]
ENCLOSING = _c("fd", [], [_c("fc", [_cap("u", "f0", 1)])])


def focus_key(sel):
    fc = G.focus_cap(sel)
    return fc.alias


class Sim:
    def __init__(self, inside, selective=False):
        """selective: the "overlays" are probes (ptera.probe.Probe) on the raw functions, which
        instrument only the variables their selectors name, instead of BaseOverlay handlers on
        fully instrumented `tooled` copies."""
        self.inside = inside
        self.selective = selective
        if selective:
            self.tf = dict(F.RAW)
            self.fnstates = [HY.FnState(f) for f in F.RAW.values()]
        else:
            self.tf = T.tooled_family()
            self.fnstates = []
        F.DISPATCH.update(self.tf)
        self.env = dict(self.tf)
        self.trace = M.Trace()
        self.overlays = []  # dict(spec, sel, sink, cm, open_t, close_t)
        self.stack = []
        self.gens = []  # dict(node, gen, state, act, start_t)
        self.origin = {}  # node id -> "driver" | gen index
        self.base = None
        self.history = []
        self.flags = set()
        self.done_order = []
        self.next_id = 0
        self.pending_ov = {}
        self.closing = {}
        F.DISPATCH["cbov"] = self._cbov
        F.DISPATCH["cbox"] = self._cbox

    def _cbox(self, node):
        rec = self.closing.pop(node["id"], None)
        if rec is not None:
            rec["cm"].__exit__(None, None, None)
        return node["ret"]

    def _cbov(self, node):
        self.pending_ov.pop(node["id"])["cm"].__enter__()
        return node["ret"]

    # ---- plumbing
    def _mk_overlay(self, sel):
        from ptera.interpret import Immediate
        from ptera.overlay import BaseOverlay
        from ptera.selector import select

        rec = {"sel": sel, "sink": [], "open_t": None, "close_t": None}
        if self.selective:
            from ptera.probe import Probe

            p = Probe(G.canonical(sel), env=self.env)
            p.subscribe(lambda d, rec=rec: rec["sink"].append(dict(d)))
            rec["cm"] = p
            rec["handlers"] = lambda p=p: list(p._ol.handlers)
            return rec
        s = select(G.canonical(sel), env=self.env)
        rec["handler"] = Immediate(s, trigger=(lambda a, rec=rec: rec["sink"].append({k: c.value for k, c in a.items()})))
        rec["cm"] = BaseOverlay(rec["handler"])
        rec["handlers"] = lambda rec=rec: [rec["handler"]]
        return rec

    def _enter(self, rec):
        self.trace.tick()
        rec["open_t"] = self.trace.t
        rec["cm"].__enter__()
        self.overlays.append(rec)

    def _leave(self, rec):
        self.trace.tick()
        rec["close_t"] = self.trace.t
        rec["cm"].__exit__(None, None, None)

    def _renumber(self, roots, origin):
        """Give fresh ids/values to a plan so that every value is unique in the history."""
        def walk(n):
            nid = self.next_id
            self.next_id += 1
            n = dict(n)
            n.update(id=nid, u0=nid * 10 + 1, w0=nid * 10 + 5, ret=nid * 10 + 9,
                     ru=(nid * 10 + 2) if n["ru"] is not None else None,
                     rw=(nid * 10 + 6) if n["rw"] is not None else None)
            self.origin[nid] = origin
            n["pre"] = [walk(c) for c in n["pre"]]
            n["post"] = [walk(c) for c in n["post"]]
            return n
        return [walk(r) for r in roots]

    # ---- operations (each returns nothing; model and ptera both advanced)
    def apply(self, op):
        self.history.append(op)
        getattr(self, "op_" + op[0])(*op[1:])
        self.check()

    def op_ov(self, k):
        rec = self._mk_overlay(SPECS[k % len(SPECS)])
        self._enter(rec)
        self.stack.append(rec)

    def op_leave(self):
        if not self.stack:
            return
        rec = self.stack.pop()
        self._leave(rec)
        for g in self.gens:
            if g["state"] in ("s1", "s2") and g["start_t"] is not None and g["start_t"] > rec["open_t"]:
                self.flags.add("gen-outlives-overlay")

    def op_call(self, roots):
        roots = self._renumber(roots, "driver")
        M.simulate(roots, base=self.base, trace=self.trace)
        if any(g["state"] in ("s1", "s2") for g in self.gens):
            self.flags.add("call-while-suspended")
        F.drive(copy.deepcopy(roots))

    def op_gen(self, node):
        node = dict(node, fn="ga", raises=False)
        idx = len(self.gens)
        if node.get("enter_ov") is not None:
            # the generator's body itself enters an overlay (first thing it does) and does not
            # leave it: from then on it is an overlay like any other, ended by the driver
            cb = {"id": 0, "fn": "cbov", "u0": 0, "w0": 0, "ru": None, "rw": None, "pre": [], "post": [],
                  "via": False, "catch": False, "raises": False, "ret": 0, "spec": node["enter_ov"]}
            node = dict(node, pre=[cb] + list(node["pre"]))
            if node.get("own_exit"):
                # ... and leaves it itself after the first yield (if the driver has not ended it yet)
                cbx = dict(cb, fn="cbox")
                node = dict(node, post=[cbx] + list(node["post"]))
            self.flags.add("overlay-entered-by-generator-body")
        (node,) = self._renumber([node], idx)
        g = self.tf["ga"](copy.deepcopy(node))
        self.gens.append({"node": node, "gen": g, "state": "new", "act": None, "start_t": None,
                          "create_t": self.trace.tick()})

    def _gen_segment(self, g, idx, seg):
        tr = self.trace
        node = g["node"]
        if seg == 1:
            act = M.Act(len(tr.acts), "ga", self.base, node)
            tr.acts.append(act)
            g["act"] = act
            g["start_t"] = tr.tick()
            tr.binds.append(M.Bind(tr.tick(), act, "#enter", True))
            tr.binds.append(M.Bind(tr.tick(), act, "node", node))
            tr.binds.append(M.Bind(tr.tick(), act, "u", node["u0"]))
            tr.binds.append(M.Bind(tr.tick(), act, "w", node["w0"]))
            n0 = len(tr.binds)
            M.simulate(node["pre"], base=act, trace=tr)
            if node["pre"] and node["pre"][0]["fn"] == "cbov":
                cbn = node["pre"][0]
                rec = self._mk_overlay(SPECS[cbn["spec"] % len(SPECS)])
                rec["open_t"] = next(b.t for b in tr.binds[n0:] if b.act.fn == "cbov")
                self.overlays.append(rec)
                self.stack.append(rec)
                self.pending_ov[cbn["id"]] = rec
                g["ov_rec"] = rec
        elif seg == 2:
            act = g["act"]
            if node["ru"] is not None:
                tr.binds.append(M.Bind(tr.tick(), act, "u", node["ru"]))
            if node["rw"] is not None:
                tr.binds.append(M.Bind(tr.tick(), act, "w", node["rw"]))
            n0 = len(tr.binds)
            M.simulate(node["post"], base=act, trace=tr)
            if node["post"] and node["post"][0]["fn"] == "cbox":
                rec = g.get("ov_rec")
                self.closing[node["post"][0]["id"]] = rec if rec is not None and rec["close_t"] is None else None
                if rec is not None and rec["close_t"] is None:
                    rec["close_t"] = next(b.t for b in tr.binds[n0:] if b.act.fn == "cbox")
                    if rec in self.stack:
                        self.stack.remove(rec)
                    self.flags.add("overlay-left-by-generator-body")

    def op_next(self, i):
        if not self.gens:
            return
        i %= len(self.gens)
        g = self.gens[i]
        if g["state"] in ("done", "dropped"):
            return
        node = g["node"]
        if g["state"] == "new":
            self._gen_segment(g, i, 1)
            want = ("yield", node["u0"])
            g["state"] = "s1"
        elif g["state"] == "s1":
            self._gen_segment(g, i, 2)
            want = ("yield", node["rw"] if node["rw"] is not None else node["w0"])
            g["state"] = "s2"
        else:
            want = ("stop", node["ret"])
            self._finish(g, i)
        try:
            got = ("yield", next(g["gen"]))
        except StopIteration as e:
            got = ("stop", e.value)
        except BaseException as e:
            raise PropertyViolation("gen-run", f"next(gen {i}) raised {HY.describe_exc(e)}",
                                    extra={"bucket": "gen-run:" + HY.exc_bucket(e)})
        if got != want:
            raise PropertyViolation("gen-result", f"next(gen {i}) gave {got!r}, expected {want!r}")

    def op_throw(self, i):
        """throw(ValueError) into a generator suspended at its first yield: it absorbs the error and
        yields the same value again - no binding, no call, and nothing changes for its caller."""
        if not self.gens:
            return
        i %= len(self.gens)
        g = self.gens[i]
        if g["state"] != "s1":
            return
        self.flags.add("throw")
        try:
            got = ("yield", g["gen"].throw(ValueError("thrown")))
        except BaseException as e:
            raise PropertyViolation("gen-run", f"throw into gen {i} raised {HY.describe_exc(e)}",
                                    extra={"bucket": "gen-run:" + HY.exc_bucket(e)})
        if got != ("yield", g["node"]["u0"]):
            raise PropertyViolation("gen-result", f"throw into gen {i} gave {got!r}, expected the first value again")

    def _finish(self, g, i):
        g["state"] = "done"
        live_started = [j for j, h in enumerate(self.gens) if h["state"] in ("s1", "s2") and j > i]
        if live_started:
            self.flags.add("non-lifo-finish")

    def op_close(self, i):
        if not self.gens:
            return
        i %= len(self.gens)
        g = self.gens[i]
        if g["state"] in ("done", "dropped"):
            return
        if g["state"] in ("s1", "s2"):
            self._finish(g, i)
        g["state"] = "done"
        try:
            g["gen"].close()
        except BaseException as e:
            raise PropertyViolation("gen-run", f"close(gen {i}) raised {HY.describe_exc(e)}")

    def op_drop(self, i):
        if not self.gens:
            return
        i %= len(self.gens)
        g = self.gens[i]
        if g["state"] in ("done", "dropped"):
            return
        if g["state"] in ("s1", "s2"):
            self._finish(g, i)
        g["state"] = "dropped"
        g["gen"] = None
        gc.collect()

    # ---- oracle
    def expected_for(self, rec):
        sel = rec["sel"]
        lo = rec["open_t"]
        hi = rec["close_t"] if rec["close_t"] is not None else float("inf")
        groups = M.immediate_events(sel, self.trace, within=lambda t: lo < t < hi)
        return [e for g in groups for e in g]

    def check(self):
        for oi, rec in enumerate(self.overlays):
            key = focus_key(rec["sel"])
            want = self.expected_for(rec)
            got = list(rec["sink"])

            def origin(e):
                return self.origin.get(e[key] // 10, "?")

            wd = [e for e in want if origin(e) == "driver"]
            gd = [e for e in got if origin(e) == "driver"]
            state = "open" if rec["close_t"] is None else "ended"
            if gd != wd:
                raise PropertyViolation(
                    "driver-events",
                    f"overlay #{oi} {G.canonical(rec['sel'])} ({state}): events for the driver's own calls: "
                    f"expected {wd!r}, got {gd!r}",
                )
            unknown = [e for e in got if origin(e) == "?"]
            if unknown:
                raise PropertyViolation("driver-events", f"overlay #{oi}: events from nowhere {unknown!r}")
            for gi, g in enumerate(self.gens):
                if g["start_t"] is None:
                    continue
                # (a probe swaps the function's code in place: which variant a generator object runs
                # is decided when it is created, not when it is first advanced)
                born = g["create_t"] if self.selective else g["start_t"]
                covering = rec["open_t"] < born and rec["close_t"] is None
                wg = [e for e in want if origin(e) == gi]
                gg = [e for e in got if origin(e) == gi]
                if covering and wg:
                    self.flags.add("gen-events-compared")
                    if len({e[key] // 10 for e in wg} & set(_ids(g["node"]["post"]))) > 0:
                        self.flags.add("gen-second-segment-compared")
                if covering and gg != wg:
                    raise PropertyViolation(
                        "generator-events",
                        f"overlay #{oi} {G.canonical(rec['sel'])} spanning generator {gi}: expected {wg!r}, got {gg!r}",
                    )
        if not self.inside or not getattr(self, "in_fd", False):
            want_ids = sorted(id(h) for r in self.overlays if r["close_t"] is None for h in r["handlers"]())
            pairs = HY.handlers_installed()
            have_ids = sorted(id(a) for _, a in pairs)
            if want_ids != have_ids:
                extra = [str(s) for s, a in pairs if id(a) not in want_ids]
                raise PropertyViolation(
                    "handlers",
                    f"top-level context has {len(pairs)} handler pair(s), expected exactly the {len(want_ids)} open "
                    f"overlay(s); foreign pairs: {extra[:4]}",
                )

    def cleanup(self):
        for g in self.gens:
            g["gen"] = None
        gc.collect()
        HY.force_global_clean()
        for st_ in self.fnstates:
            if st_.is_clean():
                st_.force_clean()
        F.DISPATCH.update(F.RAW)
        F.DISPATCH.pop("cbov", None)
        F.DISPATCH.pop("cbox", None)


def _ids(children):
    out = []
    for c in children:
        out.append(c["id"])
        out += _ids(c["pre"]) + _ids(c["post"])
    return out


def run_history(inside, ops, selective=False):
    sim = Sim(inside, selective)
    try:
        if not inside:
            for op in ops:
                sim.apply(tuple(op))
            while sim.stack:
                sim.apply(("leave",))
        else:
            # inside == "bare": fd runs with no overlay around it (an instrumented call with an
            # empty handler collection), and the overlays its script entered are still open when
            # it returns: they must then be installed at top level, where they are left
            bare = inside == "bare"
            enc = None if bare else sim._mk_overlay(ENCLOSING)
            if not bare:
                sim._enter(enc)
            tr = sim.trace
            act = M.Act(len(tr.acts), "fd", None, None)
            tr.acts.append(act)
            tr.binds.append(M.Bind(tr.tick(), act, "#enter", True))
            tr.binds.append(M.Bind(tr.tick(), act, "u", 1000))
            sim.base = act
            sim.in_fd = True
            err = []

            def step(op):
                def run():
                    if not err:
                        try:
                            sim.apply(tuple(op))
                        except PropertyViolation as v:
                            err.append(v)
                return run

            script = [step(op) for op in ops]

            def unwind():
                while sim.stack and not err:
                    try:
                        sim.apply(("leave",))
                    except PropertyViolation as v:
                        err.append(v)

            if not bare:
                script.append(unwind)
            sim.tf["fd"](script)
            if err:
                raise err[0]
            sim.in_fd = False
            sim.base = None
            if bare:
                if sim.stack:
                    sim.flags.add("overlay-outlives-the-call-that-entered-it")
                sim.check()
                while sim.stack:
                    sim.apply(("leave",))
            else:
                sim._leave(enc)
            sim.check()
    finally:
        sim.cleanup()
    return sim


def replay(payload):
    try:
        run_history(payload["inside"], payload["ops"], payload.get("selective", False))
    except PropertyViolation as v:
        return [{"clause": v.clause, "detail": v.detail}]
    return []


def strategy(max_ops):
    from hypothesis import strategies as st

    plans = T.plan_strategy(max_nodes=4, max_depth=3, fns=["fc", "fc", "fb", "fa"], raising=False)
    gnode = st.tuples(T.plan_strategy(max_nodes=4, max_depth=3, fns=["fc", "fc", "fb"], raising=False), st.booleans(),
                      st.sampled_from([None, None, None, 0, 1, 4]), st.booleans()
                      ).map(lambda t: dict(t[0][0], swallow=t[1], enter_ov=t[2], own_exit=t[3]))  # swallow: absorbs GeneratorExit
    ov = st.tuples(st.just("ov"), st.sampled_from([0, 0, 4, 4, 1, 2, 3]))
    nxt = st.tuples(st.just("next"), st.integers(0, 2))
    call = st.tuples(st.just("call"), plans)
    gen = st.tuples(st.just("gen"), gnode)
    op = st.one_of(
        ov, st.tuples(st.just("leave")), gen, gen, nxt, nxt, nxt, nxt, nxt,
        st.tuples(st.just("close"), st.integers(0, 2)),
        st.tuples(st.just("drop"), st.integers(0, 2)),
        st.tuples(st.just("throw"), st.integers(0, 2)),
        call, call, call,
    )
    prefix = st.lists(ov, min_size=0, max_size=2)
    body = st.lists(op, min_size=6, max_size=max_ops)
    overlays_first = st.tuples(prefix, gen.map(lambda g: [g]), body).map(lambda t: t[0] + t[1] + t[2])
    # generators created and started while nothing is installed, overlays only afterwards
    started = st.lists(st.tuples(gen, st.integers(0, 2)), min_size=1, max_size=2).map(
        lambda gs: [g for g, _ in gs] + [("next", i) for i, (_, k) in enumerate(gs) for _ in range(1 if k else 0)]
        + [("next", i) for i in range(len(gs))])
    gens_first = st.tuples(started, st.lists(ov, min_size=1, max_size=2), body).map(lambda t: t[0] + t[1] + t[2])
    return st.tuples(st.sampled_from([True, False, True, False, "bare"]), st.one_of(overlays_first, overlays_first, gens_first), st.booleans())


def plan(tier, seed, scale):
    if tier == "quick":
        return [{"examples": int(400 * scale), "ops": 20} for _ in range(16)]
    return [{"examples": int(2500 * scale), "ops": 20 if i % 2 else 45} for i in range(32)]


def _brief(op):
    if op[0] == "call":
        return ["call", T.plan_brief(op[1])]
    if op[0] == "gen":
        return ["gen", T.plan_brief([op[1]])]
    if op[0] == "ov":
        return ["overlay", G.canonical(SPECS[op[1] % len(SPECS)])]
    return list(op)


def shard(cfg):
    rec = Recorder()

    def body(case):
        inside, ops, selective = case
        sim = run_history(inside, ops, selective)
        fl = set(sim.flags)
        nt = bool(fl & {"call-while-suspended", "non-lifo-finish", "gen-outlives-overlay"})
        fl.add(("inside-fd-bare" if inside == "bare" else "inside-fd") if inside else "top-level")
        fl.add("probes-on-raw-functions" if selective else "overlays-on-tooled-copies")
        rec.case(h64(repr(case)), nt, fl, sample=lambda: {"inside_fd": inside, "ops": [_brief(o) for o in ops]})
        rec.evaluations += len(ops) - 1

    n, v, herr = hyp_search(strategy(cfg["ops"]), body, seed=cfg["seed"] * 1000 + cfg["shard"],
                            max_examples=cfg["examples"], case_cpu_s=30.0)
    res = rec.result()
    if v is not None:
        inside, ops, selective = v.case
        res["violations"] = [violation_record(PROPERTY, v, {"inside": inside, "ops": [list(o) for o in ops],
                                                            "selective": selective})]
    if herr:
        res["harness_errors"] = [herr]
    return res
