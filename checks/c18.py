"""C18 - malformed selectors are rejected with a syntax or selector error.

Every generated string goes through parse(), select(env=ENV) and probing(env=ENV) +
__enter__/__exit__ (plain and overridable).  Oracle = allowed-exception predicate:

  compiling (parse / select):  returns, or raises SyntaxError *with offset set*,
      SelectorError, or TypeError("A selector's category can only be a Tag.").
      Tolerated by decision (counted): CodeNotFoundError / ImportError for /module/path
      references to things that do not exist, and exceptions raised by evaluating a *user
      value expression* (innermost ptera frame is the call line of VCall.eval).
  probe creation / activation:  refusals must be *deliberate* (innermost ptera frame fails
      on a `raise` statement, not AssertionError) - see vlib.hygiene.is_deliberate.
  semantic faults injected into valid selectors must be refused by the end of __enter__.
"""

import itertools
import signal
import time

from vlib import hygiene as HY
from vlib import selgen as G
from vlib.core import PropertyViolation, Recorder, hyp_search, violation_record, h64

PROPERTY = "C18"
RULE = (
    "strings = (a) every concatenation of <=4 (quick) / <=5 (thorough) tokens of a 32-token alphabet covering "
    "all lexer classes, (b) Hypothesis: valid selgen renderings under 1-3 token mutations and raw text over "
    "the selector character set, (c) the five semantic faults of the statement injected into valid selectors, "
    "each also tried sharing one probe with a valid selector. "
    "Non-trivial = the string is neither accepted nor rejected by the lexer/precedence table alone ('Invalid "
    "token'), i.e. it reaches the precedence parser or an evaluator action; distinct by string."
)
ASSUMPTIONS = [
    "CodeNotFoundError/ImportError for absolute references to non-existing code are clean refusals",
    "exceptions raised by calling user value expressions (x=fn(...)) belong to the user, not to ptera",
    "exceptions raised inside importlib/codefind while looking up a /module/path reference count as 'not found'",
    "a string that produces no result within 2 s of CPU time (normal: <1 ms) and again within 10 s on an immediate second attempt is reported as non-termination; a one-off slow first attempt is counted, not reported",
]

# --- fixed environment -----------------------------------------------------------------


def f(a, b=2):
    x = a + b
    y = x * 2
    return y


def g(y):
    r = f(y)
    return r


def h(n=2):
    t = 0
    for i in range(n):
        t = t + i
    return t


class K:
    def meth(self, z):
        w = z
        return w


def lt(k):
    return lambda v: v < k


def every(n=None, start=0, end=None):
    return lambda v: True


obj = K()
ENV = {"f": f, "g": g, "h": h, "K": K, "obj": obj, "N": 7, "lt": lt, "every": every, "s": "str"}
_FNS = None


def _fnstates():
    global _FNS
    if _FNS is None:
        _FNS = [HY.FnState(x) for x in (f, g, h, K.meth)]
    return _FNS


ALPHABET = [
    ">", "(", ")", ",", "!", "!!", "$", ":", "=", "~", " as ", " ", "\n", "[", "]", ">>",
    "f", "g", "x", "a", "*", "#value", "#foo", "@A", "N", "3", "'s'", "lt", "K.meth", "f.q",
    "%", "/m/f",
]
DOC_TYPEERROR = "A selector's category can only be a Tag."


class _Hang(BaseException):
    pass


def _on_alarm(signum, frame):
    raise _Hang()


def _user_value_error(exc):
    fr = HY.innermost_ptera_frame(exc)
    return fr is not None and fr[0] == "selector.py" and fr[1] == "eval" and "fn(*args" in fr[3]


def _absref_lookup_error(exc):
    """Raised by importlib/codefind while looking up a '/module/path' reference."""
    fr = HY.innermost_ptera_frame(exc)
    return (
        fr is not None
        and fr[0] == "selector.py"
        and fr[1] == "resolve"
        and "codefind.find_code(" in fr[3]
        and not HY.innermost_frame_is_ptera(exc)
    )


def classify_compile(exc):
    """None if allowed; else a description.  Strict three-class rule for parse/select."""
    from ptera.selector import SelectorError
    from ptera.utils import CodeNotFoundError

    if isinstance(exc, SyntaxError):
        if exc.offset is None:
            return "SyntaxError without the offending position (offset is None)"
        return None
    if isinstance(exc, SelectorError):
        return None
    if isinstance(exc, TypeError) and str(exc) == DOC_TYPEERROR:
        return None
    if isinstance(exc, (CodeNotFoundError, ImportError)):
        return None
    if _user_value_error(exc) or _absref_lookup_error(exc):
        return None
    return "internal/unlisted error " + HY.describe_exc(exc)


def classify_activation(exc):
    from ptera.selector import SelectorError
    from ptera.utils import CodeNotFoundError

    if isinstance(exc, (SyntaxError, SelectorError, CodeNotFoundError, ImportError)):
        return classify_compile(exc)
    if _user_value_error(exc) or _absref_lookup_error(exc):
        return None
    if HY.is_deliberate(exc):
        return None
    return "accidental error " + HY.describe_exc(exc)


def _cleanup():
    for st in _fnstates():
        if st.is_clean():
            st.force_clean()
    if HY.global_state_problems():
        HY.force_global_clean()


def check_string(s, rec=None, must_refuse=False, overridable_only=False, only_plain=False):
    """Run one string through all entry points.  Returns a status string; raises
    PropertyViolation."""
    from ptera import selector as S
    from ptera.probe import probing

    status = "valid"
    msg = ""
    try:
        S.parse(s)
    except _Hang:
        raise
    except MemoryError as e:
        e.__traceback__ = None  # release the frames holding the runaway allocation
        raise PropertyViolation("termination", f"compiling {s!r} exhausted the memory limit (runaway allocation)",
                                extra={"bucket": "hang"}) from None
    except BaseException as e:
        bad = classify_compile(e)
        if bad:
            raise PropertyViolation(
                "parse", f"parse({s!r}): {bad}", extra={"bucket": "parse:" + HY.exc_bucket(e)}
            )
        status = "rejected-parse"
        msg = str(e)
    if status == "valid":
        try:
            S.select(s, env=ENV)
        except _Hang:
            raise
        except MemoryError as e:
            e.__traceback__ = None
            raise PropertyViolation("termination", f"compiling {s!r} exhausted the memory limit (runaway allocation)",
                                    extra={"bucket": "hang"}) from None
        except BaseException as e:
            bad = classify_compile(e)
            if bad:
                raise PropertyViolation(
                    "select", f"select({s!r}): {bad}", extra={"bucket": "select:" + HY.exc_bucket(e)}
                )
            status = "rejected-select"
            msg = str(e)
    variants = [True] if overridable_only else ([False] if only_plain else [False, True])
    refused_all = True
    if status != "rejected-parse":
        for ov in variants:
            refused = False
            p = None
            try:
                try:
                    p = probing(s, env=ENV, overridable=ov)
                    p.__enter__()
                except _Hang:
                    raise
                except BaseException as e:
                    refused = True
                    bad = classify_activation(e)
                    if bad:
                        raise PropertyViolation(
                            "activation",
                            f"probing({s!r}, overridable={ov}) create/enter: {bad}",
                            extra={"bucket": "activation:" + HY.exc_bucket(e)},
                        )
                else:
                    try:
                        p.__exit__(None, None, None)
                    except _Hang:
                        raise
                    except BaseException as e:
                        raise PropertyViolation(
                            "deactivation",
                            f"probing({s!r}) entered fine but __exit__ raised {HY.describe_exc(e)}",
                            extra={"bucket": "exit:" + HY.exc_bucket(e)},
                        )
            finally:
                _cleanup()
            refused_all = refused_all and refused
            if must_refuse and not refused:
                raise PropertyViolation(
                    "silent-accept",
                    f"faulty selector {s!r} (overridable={ov}) was accepted by creation and activation",
                    extra={"bucket": "silent-accept"},
                )
        if must_refuse and not overridable_only:
            # ... and when the probe type is requested explicitly
            p = None
            try:
                try:
                    p = probing(s, env=ENV, probe_type="total")
                    p.__enter__()
                except _Hang:
                    raise
                except BaseException as e:
                    bad = classify_activation(e)
                    if bad:
                        raise PropertyViolation(
                            "activation", f"probing({s!r}, probe_type='total') create/enter: {bad}",
                            extra={"bucket": "activation-total:" + HY.exc_bucket(e)})
                else:
                    try:
                        p.__exit__(None, None, None)
                    except BaseException:  # noqa
                        pass
                    raise PropertyViolation(
                        "silent-accept", f"faulty selector {s!r} was accepted with an explicit probe_type='total'",
                        extra={"bucket": "silent-accept-total"})
            finally:
                _cleanup()
        if must_refuse:
            # the fault must also be refused when the selector shares its probe with a valid one
            for texts in ((COMPANION, s), (s, COMPANION)):
                for ov in variants:
                    p = None
                    try:
                        try:
                            p = probing(*texts, env=ENV, overridable=ov)
                            p.__enter__()
                        except _Hang:
                            raise
                        except BaseException as e:
                            bad = classify_activation(e)
                            if bad:
                                raise PropertyViolation(
                                    "activation", f"probing{texts!r} (overridable={ov}) create/enter: {bad}",
                                    extra={"bucket": "activation-multi:" + HY.exc_bucket(e)})
                        else:
                            try:
                                p.__exit__(None, None, None)
                            except BaseException:  # noqa
                                pass
                            raise PropertyViolation(
                                "silent-accept",
                                f"faulty selector {s!r} was accepted when it shares a probe with {COMPANION!r}: "
                                f"probing{texts!r} (overridable={ov}) was created and activated",
                                extra={"bucket": "silent-accept-multi"})
                    finally:
                        _cleanup()
        if status == "valid" and refused_all:
            status = "rejected-activation"
    if rec is not None:
        lexer_only = status == "rejected-parse" and msg.startswith("Invalid token")
        nontrivial = status != "valid" and not lexer_only
        rec.case(h64(s), nontrivial, [status], sample={"string": s, "status": status, "message": msg[:80]})
    return status


def guarded(s, rec, **kw):
    """check_string under the hang guard."""
    # CPU time, not wall-clock time (see vlib.prorun.time_limit)
    import gc

    signal.signal(signal.SIGPROF, _on_alarm)
    gc_was_on = gc.isenabled()
    gc.disable()  # a full collection in a long-running shard must not count against the string
    signal.setitimer(signal.ITIMER_PROF, 2.0)
    try:
        return check_string(s, rec, **kw)
    except _Hang:
        pass
    finally:
        signal.setitimer(signal.ITIMER_PROF, 0)
        if gc_was_on:
            gc.enable()
    # 2 s of CPU time were not enough.  A selector that really never finishes does so every
    # time; a one-off stall of a long-running shard (a full garbage collection over a large
    # heap, say) does not: decide on a second attempt with ten times the budget.
    _cleanup()
    SLOW["retries"] += 1
    signal.setitimer(signal.ITIMER_PROF, 10.0)
    try:
        return check_string(s, rec, **kw)
    except _Hang:
        raise PropertyViolation(
            "termination", f"compiling {s!r} produced no result within 2 s and, tried again, within 10 s of CPU time",
            extra={"bucket": "hang"}
        )
    finally:
        signal.setitimer(signal.ITIMER_PROF, 0)


SLOW = {"retries": 0}


COMPANION = "f > a"  # a valid, focused selector sharing the probe with a faulty one


# --- semantic faults --------------------------------------------------------------------

FAULTS = {
    "meta": ["f > #foo", "f(#values, !x)", "g > f(a, !#enterr)", "f(!#loop)", "h(#loop_i, !#endloops_i)",
             "f(#Value) > x", "K.meth > #val", "f(x, #errors)"],
    "category": ["f > x:N", "f(a:N) > x", "f:N > x", "f > x:g", "f(!x:s)", "g > f(a:lt, !x)", "f > $v:N"],
    "function": ["nosuch > x", "g > nosuch > x", "f.nosuch > x", "K.nosuch > w", "nosuch.attr > x",
                 "g(y) > nosuch(a) > x", "obj.nosuch > w", "nosuch(!x)"],
    "focus2": ["f(!!x)", "f(a, !!x)", "g > f(!!x)", "f(!!#exit)", "g(!!y, f(a))", "K.meth(!!w)", "f((x), !!y)",
               "f((a), (x), !!y)"],
    # top-level sequences of call paths, with parenthesised sub-sequences
    "sequence": ["(f > a, f > b), g", "((a, b)), c", "x, (a, b), c", "(f > a, g > y), (h > n, f > b)"],
    "nofocus-override": ["f(x)", "f(a, x)", "g(y, f(x))", "f()", "h(i, t)", "K.meth(w)", "f((x))", "f(a, (x))",
                         "f((x as z))", "g((y), f((x)))"],
}


def fault_cases():
    for kind, sels in FAULTS.items():
        for s in sels:
            yield kind, s


# --- generated semantic faults -----------------------------------------------------------

FUNC_VARS = {"f": ["a", "b", "x", "y"], "g": ["y", "r"], "h": ["n", "t", "i"], "K.meth": ["self", "z", "w"],
             "obj.meth": ["z", "w"]}
BAD_METAS = ["#foo", "#values", "#enterr", "#val", "#loop", "#Value", "#errors", "#exit_", "#yields", "#"]
BAD_FUNCS = ["nosuch", "f.nosuch", "K.nosuch", "nosuch.attr", "obj.nosuch", "N.real_", "G"]
BAD_CATS = ["N", "g", "s", "lt", "K", "obj"]


def fault_strategy():
    """(base IR valid against ENV, fault kind, faulty IR-or-text builder)."""
    from hypothesis import strategies as st

    @st.composite
    def gen(draw):
        k = [0]

        def alias():
            k[0] += 1
            return f"q{k[0]}"

        def node(depth):
            fn = draw(st.sampled_from(list(FUNC_VARS)))
            caps = []
            for _ in range(draw(st.integers(0, 3))):
                kind = draw(st.sampled_from(["var", "var", "var", "generic", "meta", "star"]))
                if kind == "var":
                    caps.append(G.Cap(draw(st.sampled_from(FUNC_VARS[fn])), alias(), None, None, "=", 0))
                elif kind == "generic":
                    caps.append(G.Cap(None, alias(), None, None, "=", 0))
                elif kind == "star":
                    caps.append(G.Cap(None, None, None, None, "=", 0))
                else:
                    caps.append(G.Cap(draw(st.sampled_from(["#enter", "#exit", "#value", "#error"])), alias(),
                                      None, None, "=", 0))
            children = []
            if depth < 3:
                for _ in range(draw(st.integers(0, 2 if depth == 1 else 1))):
                    children.append(node(depth + 1))
            return G.CallN(fn, None, tuple(caps), tuple(children))

        base = node(1)
        nodes = [n for _, n in _walk(base)]
        # put the focus on a random node
        fi = draw(st.integers(0, len(nodes) - 1))
        fnode = nodes[fi]
        fvar = draw(st.sampled_from(FUNC_VARS[fnode.fn] + ["#value"]))
        fc = G.Cap(fvar, alias(), None, None, "=", 1)
        pos = draw(st.integers(0, len(fnode.caps)))
        base = _replace_node(base, fnode, fnode._replace(caps=fnode.caps[:pos] + (fc,) + fnode.caps[pos:]))
        kind = draw(st.sampled_from(["meta", "category", "function", "focus2", "nofocus-override"]))
        nodes = [n for _, n in _walk(base)]
        tgt = nodes[draw(st.integers(0, len(nodes) - 1))]
        if kind == "meta":
            bad = G.Cap(draw(st.sampled_from(BAD_METAS)), alias() if draw(st.booleans()) else None, None, None, "=", 0)
            at = draw(st.integers(0, len(tgt.caps)))
            faulty = _replace_node(base, tgt, tgt._replace(caps=tgt.caps[:at] + (bad,) + tgt.caps[at:]))
        elif kind == "category":
            cat = draw(st.sampled_from(BAD_CATS))
            if tgt.caps and draw(st.booleans()):
                at = draw(st.integers(0, len(tgt.caps) - 1))
                c = tgt.caps[at]._replace(tag="!" + cat)
                faulty = _replace_node(base, tgt, tgt._replace(caps=tgt.caps[:at] + (c,) + tgt.caps[at + 1:]))
            else:
                faulty = _replace_node(base, tgt, tgt._replace(fntag="!" + cat))
        elif kind == "function":
            faulty = _replace_node(base, tgt, tgt._replace(fn=draw(st.sampled_from(BAD_FUNCS))))
        elif kind == "focus2":
            def to2(n):
                return n._replace(caps=tuple(c._replace(focus=2) if c.focus == 1 else c for c in n.caps),
                                  children=tuple(to2(ch) for ch in n.children))
            faulty = to2(base)
        else:
            def nof(n):
                return n._replace(caps=tuple(c._replace(focus=0) if c.focus == 1 else c for c in n.caps),
                                  children=tuple(nof(ch) for ch in n.children))
            faulty = nof(base)
        choices = draw(st.lists(st.integers(0, 3), max_size=10))
        return base, kind, faulty, choices

    return gen()


def _walk(n, chain=()):
    chain = chain + (n,)
    yield chain, n
    for ch in n.children:
        yield from _walk(ch, chain)


def _replace_node(root, old, new):
    if root is old:
        return new
    return root._replace(children=tuple(_replace_node(ch, old, new) for ch in root.children))


def _render_fault(ir, choices):
    # a tag spelled "!N" stands for a *non-tag* category: rendered ':N' instead of ':@N'
    text = G.render(ir, choices, [1] * 4) if choices else G.canonical(ir)
    return text.replace(":@!", ":")


# --- shards -----------------------------------------------------------------------------


def replay(payload):
    s = payload["string"]
    kw = payload.get("kw", {})
    try:
        guarded(s, None, **kw)
    except PropertyViolation as v:
        return [{"clause": v.clause, "detail": v.detail}]
    return []


def plan(tier, seed, scale):
    cfgs = []
    L = 4 if tier == "quick" else 5
    for i in range(len(ALPHABET)):
        cfgs.append({"mode": "exh", "first": i, "length": L})
    cfgs.append({"mode": "short"})
    n = 16
    for i in range(n):
        cfgs.append({"mode": "hyp", "examples": int((2500 if tier == "quick" else 60000) * scale)})
    if tier == "thorough":
        for i in range(8):
            cfgs.append({"mode": "atheris", "runs": int(400000 * scale), "corpus": i % 2 == 1, "fseed": i + 1})
    return cfgs


def _ws_variants(s, ch):
    toks = []
    # crude re-tokenisation on operator characters for whitespace injection
    import re

    for m in re.finditer(r"\s+as\s+|[>(),!$:=~]+|[^>(),!$:=~\s]+", s):
        t = m.group(0)
        toks.append(G.Op(t.strip()) if re.fullmatch(r"\s+as\s+|[>(),!$:=~]+", t) else G.Tok(t))
    return G.join(toks, ch)


SEED_CORPUS = ["f > x", "f(a) > x", "f(a, !x)", "g > f > x", "f() as r", "f(a) > $v", "K.meth > w", "f(a=3) > x",
               "f(a~lt(3)) > x", "g(f(x as q), !y)", "f(!x, !!#exit)", "f > x:@A", "f(a~every(3, start=1), !y)"]


def atheris_campaign(cfg):
    """Coverage-guided campaign (tools/fuzz_c18.py) with the same oracle inside the target."""
    import json
    import os
    import shutil
    import subprocess
    import tempfile
    from vlib.core import VERIF

    rec = Recorder()
    res = rec.result()
    if not os.path.isdir(os.path.join(VERIF, ".deps", "atheris")):
        res["notes"] = ["atheris campaign skipped: atheris not installed under /verif/.deps (tools/setup.py)"]
        return res
    d = tempfile.mkdtemp(prefix="verif_c18_fuzz_")
    try:
        corpus = os.path.join(d, "corpus")
        os.makedirs(corpus)
        if cfg["corpus"]:
            for i, s in enumerate(SEED_CORPUS):
                with open(os.path.join(corpus, f"s{i}"), "wb") as f:
                    f.write(b"\x00" + s.encode("latin-1"))
        out = os.path.join(d, "violation.json")
        seed = cfg["seed"] * 100 + cfg["fseed"]
        p = subprocess.run(
            ["/venv/bin/python", os.path.join(VERIF, "tools", "fuzz_c18.py"), out, f"-runs={cfg['runs']}",
             f"-seed={seed}", "-max_len=42", f"-artifact_prefix={d}/", corpus],
            capture_output=True, text=True, timeout=3600, cwd=d)
        done = [l for l in p.stderr.splitlines() if l.startswith("Done ")]
        cov = [l for l in p.stderr.splitlines() if " cov: " in l]
        runs = int(done[-1].split()[1]) if done else (int(cov[-1].split()[0].lstrip("#")) if cov else 0)
        res["evaluations"] = runs
        res["counters"] = {"atheris_runs": runs, "atheris_campaigns": 1}
        res["notes"] = [f"atheris shard seed={seed} corpus={'valid selectors' if cfg['corpus'] else 'empty'}: "
                        f"{runs} runs; last status: {(cov[-1].strip()[:120] if cov else 'n/a')}"]
        if os.path.exists(out):
            v = json.load(open(out))
            res["violations"] = [{"property": PROPERTY, "clause": v["clause"], "detail": v["detail"][:2000],
                                  "payload": {"string": v["string"], "kw": {"only_plain": True}},
                                  "bucket": v.get("bucket") or v["clause"]}]
        elif p.returncode != 0 and not done:
            res["harness_errors"] = ["atheris campaign failed:\n" + p.stderr[-1500:]]
    finally:
        shutil.rmtree(d, ignore_errors=True)
    return res


def shard(cfg):
    if cfg["mode"] == "atheris":
        return atheris_campaign(cfg)
    rec = Recorder()
    viol = {}

    def run_one(s, **kw):
        try:
            guarded(s, rec, **kw)
        except PropertyViolation as v:
            b = v.extra.get("bucket", v.clause)
            if b not in viol or len(s) < len(viol[b]["payload"]["string"]):
                viol[b] = violation_record(PROPERTY, v, {"string": s, "kw": kw})
            rec.count("violating_strings")

    if cfg["mode"] == "exh":
        first = ALPHABET[cfg["first"]]
        L = cfg["length"]
        n = 0
        for k in range(0, L):
            for rest in itertools.product(ALPHABET, repeat=k):
                kw = {"only_plain": True} if (k == L - 1 and L >= 5) else {}
                run_one(first + "".join(rest), **kw)
                n += 1
                if len(viol) > 25 or "hang" in viol:
                    break  # (every further non-terminating string would cost the full CPU limit)
            if "hang" in viol:
                break
        rec.count("exhaustive_strings", n)
    elif cfg["mode"] == "short":
        run_one("")
        for kind, s in fault_cases():
            kw = {"must_refuse": True}
            if kind == "nofocus-override":
                kw["overridable_only"] = True
            for ws in ([0] * 60, [1] * 60, [3, 0, 1] * 20):
                run_one(_ws_variants(s, G.Chooser(ws)), **kw)
            rec.count("fault:" + kind)
    else:
        from hypothesis import strategies as st

        ir_s, ch_s = G.strategies(max_depth=3, max_width=2)
        # names bound in ENV so that many mutants survive to select/activation
        mut = st.lists(
            st.tuples(st.sampled_from(["del", "dup", "swap", "ins", "rep", "wrap", "wrap", "comma"]), st.integers(0, 60),
                      st.sampled_from(ALPHABET)),
            min_size=1, max_size=3,
        )
        base_valid = st.sampled_from(
            ["f > x", "f(a) > x", "f(a, !x)", "g > f > x", "g(y) > f(a) > x", "f() as r", "f(a) > $v",
             "K.meth > w", "f(#enter, !x)", "f(a=3) > x", "f(a~lt(3)) > x", "g(f(x as q), !y)",
             "f(!x, !!#exit)", "h > #loop_i", "f > x:@A", "obj.meth > w", "f(a~every(3, start=1), !y)"]
        )
        charset = "fgxa>(),!$:=~#@*'. \nNKs3-/[]{}%\\\"as"
        strat = st.one_of(
            st.tuples(st.just("fault"), fault_strategy(), st.just(None), st.just(None), st.just(None)),
            st.tuples(st.just("mut-ir"), ir_s, ch_s, ch_s, mut),
            st.tuples(st.just("mut-valid"), base_valid, st.just(None), ch_s, mut),
            st.tuples(st.just("raw"), st.text(alphabet=charset, max_size=40), st.just(None), st.just(None),
                      st.just(None)),
            st.tuples(st.just("tokens"), st.lists(st.sampled_from(ALPHABET), max_size=12), st.just(None),
                      st.just(None), st.just(None)),
        )

        def build(case):
            kind, a, b, c, m = case
            if kind == "raw":
                return a
            if kind == "tokens":
                return "".join(a)
            if kind == "mut-ir":
                toks = [str(t) if t != "as" else " as " for t in G.r_call(a, G.Chooser(b))]
            else:
                import re

                toks = re.findall(r"\s+as\s+|!!|[>(),!$:=~]|[^>(),!$:=~\s]+", a)
            for op, pos, tok in m:
                if not toks:
                    toks = [tok]
                    continue
                i = pos % len(toks)
                if op == "del":
                    del toks[i]
                elif op == "dup":
                    toks.insert(i, toks[i])
                elif op == "swap" and len(toks) > 1:
                    j = (i + 1) % len(toks)
                    toks[i], toks[j] = toks[j], toks[i]
                elif op == "ins":
                    toks.insert(i, tok)
                elif op == "wrap":
                    j = min(len(toks), i + 1 + (ALPHABET.index(tok) % 5))
                    toks[i:j] = ["("] + toks[i:j] + [")"]
                elif op == "comma":
                    toks.insert(i, ",")
                    toks.insert(i, tok)
                else:
                    toks[i] = tok
            return "".join(toks)

        def body(case):
            rec.count("kind:" + case[0])
            if case[0] == "fault":
                base, kind, faulty, choices = case[1]
                bt = _render_fault(base, choices)
                if guarded(bt, None, only_plain=True) != "valid":
                    rec.count("fault-base-not-valid")
                    return
                kw = {"must_refuse": True}
                if kind == "nofocus-override":
                    kw["overridable_only"] = True
                rec.count("generated-fault:" + kind)
                guarded(_render_fault(faulty, choices), rec, **kw)
                return
            s = build(case)
            guarded(s, rec)

        n, v, herr = hyp_search(strat, body, seed=cfg["seed"] * 1000 + cfg["shard"],
                                max_examples=cfg["examples"])
        if v is not None:
            if v.case[0] == "fault":
                base, kind, faulty, choices = v.case[1]
                s = _render_fault(faulty, choices)
                kw = {"must_refuse": True}
                if kind == "nofocus-override":
                    kw["overridable_only"] = True
            else:
                s = build(v.case)
                kw = {}
            viol[v.extra.get("bucket", v.clause)] = violation_record(PROPERTY, v, {"string": s, "kw": kw})
        if SLOW["retries"]:
            rec.count("slow-first-attempt-retried", SLOW["retries"])
        res = rec.result()
        res["violations"] = list(viol.values())
        if herr:
            res["harness_errors"] = [herr]
        return res
    if SLOW["retries"]:
        rec.count("slow-first-attempt-retried", SLOW["retries"])
    res = rec.result()
    res["violations"] = list(viol.values())
    return res


def coverage_extra(agg, tier):
    L = 4 if tier == "quick" else 5
    return {
        "exhaustive": True,
        "explanation": f"exhaustive part: all {len(ALPHABET)}^k token strings for k<={L} "
        f"({agg['counters'].get('exhaustive_strings', 0)} strings); the Hypothesis part is sampled",
    }
