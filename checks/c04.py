"""C04 - overriding a focus variable is equivalent to substituting the assigned value.

Oracle: the reference twin with the same override policy installed in H.bind (most recently
activated non-declining override wins; every override sees the original tentative value and
the latest context captures).  The overridden call must equal the substituted twin in the
full outcome tuple (result/exception, generator steps, ordered side-effect log - i.e. the
right-hand side evaluated exactly once and nothing else changed -, mutable arguments,
globals) and every plain probe nested with the overriding ones must report the substituted
values.  A closure variable must not be overridden: the attempt is reported as an error.
"""

import sys
from contextlib import ExitStack

from vlib import hygiene as HY
from vlib import progen as PG
from vlib import prorun as PR
from vlib.core import PropertyViolation, Recorder, hyp_search, violation_record, h64
from checks import c01

PROPERTY = "C04"
RULE = (
    "case = generated function x input x driver script x focus (parameter, plain/tuple/chained/augmented/"
    "annotated assignment, loop / with / except / import / walrus target, attribute store o.x, return value "
    "#value, closure variable) x 1-3 handlers on the same variable in generated activation order, each an "
    "override (constant | function of the tentative value | function of a context capture | conditional "
    "decline | a value equal to but distinguishable from the tentative one) or a plain probe, delivered through OverridableProbe.override/koverride/filter or through "
    "Overlay.tweaking/rewriting on a tooled copy; plus call-path overrides of different depth, optionally with "
    "value conditions on the enclosing calls, over generated call plans. Non-trivial = >=1 binding was overridden and (>=1 binding "
    "was declined or >=2 overrides applied to one binding); distinct by (source, input, script, focus, handlers)."
)
ASSUMPTIONS = [
    "subscript stores cannot be named by a selector and are only checked for transparency (C01)",
    "overrides on #yield / #receive are not generated",
]

DECLINE = object()


def is_int(v):
    return isinstance(v, int) and not isinstance(v, bool)


def apply_policy(h, tentative, latest):
    """Reference semantics of one override handler. h = (kind, K, ctx)."""
    kind, K, ctx = h
    if kind == "const":
        return K
    if kind == "fn":
        return tentative * 2 + 7 if is_int(tentative) else K
    if kind == "ctx":
        if ctx in latest and is_int(latest[ctx]) and is_int(tentative):
            return tentative + latest[ctx] + 1
        return K
    if kind == "cond":
        if is_int(tentative) and tentative % 2 == 0:
            return DECLINE
        return K
    if kind == "eq":
        # a value that compares equal to the tentative one but is not the same value
        if is_int(tentative):
            return float(tentative)
        if isinstance(tentative, bool):
            return int(tentative)
        return K
    raise ValueError(h)


def make_twin_policy(focus, handlers, stats):
    overrides = [h[1:] for h in handlers if h[0] == "override"]

    def policy(name, value, hooks):
        if name != focus:
            return value
        result = DECLINE
        applied = 0
        for h in overrides:
            r = apply_policy(h, value, hooks.latest)
            if r is not DECLINE:
                result = r
                applied += 1
            else:
                stats["declined"] += 1
        if result is DECLINE:
            return value
        stats["overridden"] += 1
        if applied >= 2:
            stats["multi"] += 1
        return result

    return policy


def user_fn(h, focus_key):
    """The user-side override function for ptera (takes the dict of captured values)."""
    from ptera.utils import ABSENT

    kind, K, ctx = h

    def fn(d):
        t = d[focus_key]
        latest = {ctx: d[ctx]} if ctx and ctx in d else {}
        r = apply_policy(h, t, latest)
        return ABSENT if r is DECLINE else r

    return fn


def focus_key_for(focus, h):
    """Every third override handler captures the focus under another name (`v as zz_v`): the
    override function then finds the tentative value under that name."""
    if h[0] == "override" and isinstance(h[2], int) and h[2] % 3 == 1:
        return "zz_" + focus
    return focus


def selector_for(focus, h):
    ctx = h[3] if h[0] == "override" and h[1] == "ctx" else None
    key = focus_key_for(focus, h)
    tgt = focus if key == focus else f"{focus} as {key}"
    if ctx:
        return f"f({ctx}) > {tgt}"
    return f"f > {tgt}"


def run_ptera(fn, src, recipe, script, focus, handlers, delivery):
    import ptera
    from ptera import probing
    from ptera.interpret import Immediate
    from ptera.overlay import BaseOverlay, Overlay

    f, glb = PR.load(src)
    sinks = []
    try:
        with ExitStack() as stack:
            if delivery == "probe":
                for h in handlers:
                    sel = selector_for(focus, h)
                    if h[0] == "plain":
                        sink = stack.enter_context(probing(sel, env={"f": f}).values())
                        sinks.append(sink)
                    else:
                        p = probing(sel, env={"f": f}, overridable=True)
                        kind = h[1]
                        ufn = user_fn(h[1:], focus_key_for(focus, h))
                        if kind == "cond":
                            # documented way to decline: filter the pipeline before override()
                            p.filter(lambda d, ufn=ufn: ufn(d) is not ptera.ABSENT).override(ufn)
                        elif kind == "ctx":
                            if h[2] % 2:
                                # koverride at the end of an operator pipeline
                                p.kfilter(lambda **kw: True).koverride(lambda ufn=ufn, **kw: ufn(kw))
                            else:
                                p.koverride(lambda ufn=ufn, **kw: ufn(kw))
                        elif kind == "const":
                            p.override(h[2])
                        else:
                            p.override(ufn)
                        stack.enter_context(p)
                target = f
            else:
                g = ptera.tooled(f)
                target = g
                for h in handlers:
                    sel = ptera.select(selector_for(focus, h), env={"f": g})
                    if h[0] == "plain":
                        sink = []
                        sinks.append(sink)
                        stack.enter_context(BaseOverlay(Immediate(sel, trigger=(
                            lambda a, sink=sink: sink.append({k: c.value for k, c in a.items()})))))
                    elif h[1] == "const":
                        stack.enter_context(Overlay.tweaking({sel: h[2]}))
                    else:
                        stack.enter_context(Overlay.rewriting({sel: user_fn(h[1:], focus_key_for(focus, h))}, full=False))
            out = PR.run_call(target, fn, recipe, glb, script)
    finally:
        if HY.global_state_problems():
            HY.force_global_clean()
        PR.forget(glb)
    return out, sinks


def check_case(fn, recipe, script, focus, handlers, delivery, rec=None):
    src = PG.render(fn)
    stats = {"declined": 0, "overridden": 0, "multi": 0}
    closure_focus = focus == "cl"
    # ---- reference
    H = PR.Hooks(policy=None if closure_focus else make_twin_policy(focus, handlers, stats))
    twin_src = PG.render(fn, twin=True, bind_stores=True)
    f2, g2 = PR.load(twin_src, extra={"H": H})
    try:
        with PR.time_limit(3.0):
            want = PR.run_call(f2, fn, recipe, g2, script)
    except PR.Timeout:
        H.runaway = True
    finally:
        PR.forget(g2)
    if H.runaway or len(g2["LOG"]) > 5000:
        # the override turned the program into a runaway loop (e.g. a loop counter overridden
        # with a constant): nothing to compare
        if rec is not None:
            rec.count("discarded-runaway-reference")
        return
    # ---- ptera
    try:
        with PR.time_limit(3.0):
            out, sinks = run_ptera(fn, src, recipe, script, focus, handlers, delivery)
    except PR.Timeout:
        HY.force_global_clean()
        raise PropertyViolation("hang", f"overridden run did not finish within 3 s of CPU time\n{src}")
    except BaseException as e:
        if isinstance(e, (KeyboardInterrupt, SystemExit)):
            raise
        HY.force_global_clean()
        raise PropertyViolation("run", f"setting up / running {handlers!r} on {focus!r} ({delivery}) raised "
                                       f"{HY.describe_exc(e)}\n{src}", extra={"bucket": "run:" + HY.exc_bucket(e)})
    if any(len(sk) > 5000 for sk in sinks) or len(out["log"]) > 5000:
        # runaway on ptera's side too (cut short by a cap): nothing to compare
        if rec is not None:
            rec.count("discarded-runaway-run")
        return
    ctxt = f"focus {focus!r} handlers {handlers!r} delivery {delivery} input {recipe!r} script {script!r}\n{src}"
    if closure_focus:
        has_override = any(h[0] == "override" for h in handlers)
        res = out["result"]
        started = any(t[0] == "enter" for t in H.trace)
        if has_override and started:
            # (a default value expression E('dflt', ..) is logged when the def statement runs)
            ran = [e for e in out["log"] if not (e[0] == "E" and e[1] == "dflt")]
            ok = res[0] == "exc" and res[1] == "OverrideException" and not ran
            if not ok:
                raise PropertyViolation(
                    "closure", f"overriding closure variable cl: expected OverrideException before anything ran, got "
                               f"{res!r} with log {out['log']!r}\n{ctxt}")
        elif PR.comparable(out) != PR.comparable(want):
            raise PropertyViolation("closure", f"plain probe on a closure variable changed the outcome\n{ctxt}")
    else:
        a, b = PR.comparable(want), PR.comparable(out)
        if a != b:
            names = ["result", "generator steps", "side-effect log", "mutable arguments", "globals"]
            diff = [f"{n}: substituted twin {x!r} vs overridden run {y!r}" for n, x, y in zip(names, a, b) if x != y]
            raise PropertyViolation("substitution", "\n".join(diff) + "\n" + ctxt,
                                    extra={"bucket": "substitution:" + names[[x != y for x, y in zip(a, b)].index(True)]})
        # plain probes must see the substituted values
        seen = [PR.nrepr(t[2]) for t in H.trace if t[0] == "bind" and t[1] == focus]
        for si, sink in enumerate(sinks):
            got = [PR.nrepr(ev.get(focus)) for ev in sink]
            if got != seen:
                raise PropertyViolation(
                    "plain-probe", f"plain probe #{si} saw {got}, the substituted values are {seen}\n{ctxt}")
    if rec is not None:
        nt = stats["overridden"] >= 1 and (stats["declined"] >= 1 or stats["multi"] >= 1)
        bn = PG.bound_names(fn)
        feats = {"delivery:" + delivery, "handlers:%d" % len(handlers)}
        feats |= {"form:" + x for x in bn.get(focus, set())}
        if focus in ("#value", "cl", "o.x"):
            feats.add("focus:" + focus)
        for k in ("overridden", "declined", "multi"):
            if stats[k]:
                feats.add(k)
        rec.case(h64(repr((src, recipe, script, focus, handlers, delivery))), nt, feats,
                 sample=lambda: {"source": src, "input": recipe, "focus": focus, "handlers": handlers,
                                 "delivery": delivery, "outcome": list(want["result"])})


# ---------------------------------------------------------------------------------------
# call-path overrides: several overriding selectors of different depth on one variable


def check_chain(roots, target_fn, chains, delivery, rec=None):
    """chains: list of (list of function names ending with target_fn, K) in activation order.
    A plain probe on `target_fn > u` must see, for every binding of u, the constant of the most
    recently activated override whose chain matches the live stack (else the original)."""
    import copy

    import ptera
    from ptera import probing
    from ptera.interpret import Immediate
    from ptera.overlay import BaseOverlay, Overlay
    from vlib import family as F
    from vlib import model_paths as M
    from vlib import selgen as G
    from vlib import treegen as T

    def sel_ir(chain, alias):
        node = G.CallN(_lv(chain[-1])[0], None, (G.Cap("u", alias, None, None, "=", 1),), ())
        for j, lv in enumerate(reversed(chain[:-1])):
            fn, cond = _lv(lv)
            caps = ()
            if cond is not None:
                caps = (G.Cap(cond[0], f"{alias}q{j}", None, ("sym", cond[1]), "~", 0),)
            node = G.CallN(fn, None, caps, (node,))
        return node

    def conds_hold(ir, emb, idx):
        for call, act in zip(M.focus_path(ir), emb):
            for c in call.caps:
                if c.value is None:
                    continue
                j = next((j for j in range(idx, -1, -1)
                          if trace.binds[j].act is act and trace.binds[j].var == c.name), None)
                # an enclosing activation of the target function holds the *substituted* value
                if j is None or not PREDS[c.value[1]](eff.get(j, trace.binds[j].value)):
                    return False
        return True

    eff = {}

    irs = [sel_ir(c, f"k{i}") for i, (c, K) in enumerate(chains)]
    trace = M.simulate(roots)
    expected = []
    n_multi = 0
    n_cond_false = 0
    for idx, b in enumerate(trace.binds):
        if b.var != "u" or b.act.fn != target_fn:
            continue
        val = b.value
        app = 0
        for ir, (c, K) in zip(irs, chains):
            embs = M.embeddings(M.focus_path(ir), b.act)
            if any(conds_hold(ir, emb, idx) for emb in embs):
                val = K
                app += 1
            elif embs:
                n_cond_false += 1
        n_multi += app >= 2
        eff[idx] = val
        expected.append(val)
    plain_ir = sel_ir([target_fn], "p0")
    sink = None
    try:
        with ExitStack() as stack:
            if delivery == "probe":
                F.DISPATCH.update(F.RAW)
                env = dict(T.env(), **PREDS)
                for ir, (c, K) in zip(irs, chains):
                    p = probing(G.canonical(ir), env=env, overridable=True)
                    p.override(K)
                    stack.enter_context(p)
                sink = stack.enter_context(probing(G.canonical(plain_ir), env=env).values())
                F.drive(copy.deepcopy(roots))
                got = [e["p0"] for e in sink]
            else:
                tf = T.tooled_family()
                F.DISPATCH.update(tf)
                env = dict(tf, **PREDS)
                sels = [ptera.select(G.canonical(ir), env=env) for ir in irs]
                if delivery == "overlay-one" and len(set(map(id, sels))) == len(sels):
                    # all overrides given to ONE tweaking call (dict order = activation order)
                    stack.enter_context(Overlay.tweaking({sx: K for sx, (c, K) in zip(sels, chains)}))
                else:
                    for sx, (c, K) in zip(sels, chains):
                        stack.enter_context(Overlay.tweaking({sx: K}))
                got = []
                stack.enter_context(BaseOverlay(Immediate(ptera.select(G.canonical(plain_ir), env=env),
                                                          trigger=lambda a: got.append(a["p0"].value))))
                F.drive(copy.deepcopy(roots))
    except BaseException as e:
        if isinstance(e, (KeyboardInterrupt, SystemExit)):
            raise
        raise PropertyViolation("chain-run", f"chain overrides {chains!r} raised {HY.describe_exc(e)}")
    finally:
        F.DISPATCH.update(F.RAW)
        for st_ in _family_states():
            if st_.is_clean():
                st_.force_clean()
        if HY.global_state_problems():
            HY.force_global_clean()
    if got != expected:
        raise PropertyViolation(
            "precedence",
            f"plan {T.plan_brief(roots)}; overrides in activation order {[(G.canonical(ir), K) for ir, (c, K) in zip(irs, chains)]} "
            f"({delivery}): plain probe saw {got}, expected {expected} (most recently activated matching override wins)",
        )
    if rec is not None:
        rec.case(h64(repr((roots, target_fn, chains, delivery))), n_multi > 0 or n_cond_false > 0,
                 {"chain-mode", "delivery:" + delivery} | ({"multi"} if n_multi else set())
                 | ({"inner-condition-false"} if n_cond_false else set()),
                 sample=lambda: {"plan": T.plan_brief(roots), "overrides": [(G.canonical(ir), K) for ir, (c, K) in zip(irs, chains)],
                                 "delivery": delivery, "seen": expected[:6]})


# value conditions usable on the non-focus levels of a chain (values are node_id * 10 + k)
PREDS = {
    "P0": lambda v: (v // 10) % 2 == 0,
    "P1": lambda v: (v // 10) % 3 != 0,
    "P2": lambda v: v % 10 in (1, 5),  # still holding its entry value
}


def _lv(x):
    """chain level: 'fa' or ['fa', [var, pred]] -> (fn, cond)"""
    if isinstance(x, str):
        return x, None
    return x[0], (tuple(x[1]) if x[1] is not None else None)


_FAM = None


def _family_states():
    global _FAM
    if _FAM is None:
        from vlib import family as F

        _FAM = [HY.FnState(f) for f in F.RAW.values()]
    return _FAM


def replay(payload):
    if payload.get("mode") == "chain":
        try:
            check_chain(payload["roots"], payload["target"], [(list(c), K) for c, K in payload["chains"]],
                        payload["delivery"])
        except PropertyViolation as v:
            return [{"clause": v.clause, "detail": v.detail}]
        return []
    fn = payload["fn"]
    fn["params"] = [tuple(p) for p in fn["params"]]
    fn["body"] = c01._tuplify(fn["body"])
    fn["closure"] = [tuple(c) for c in fn.get("closure") or []]
    recipe = {k: (v[0], v[1]) for k, v in payload["recipe"].items()}
    script = [tuple(s) for s in payload["script"]]
    handlers = [tuple(h) for h in payload["handlers"]]
    try:
        check_case(fn, recipe, script, payload["focus"], handlers, payload["delivery"])
    except PropertyViolation as v:
        return [{"clause": v.clause, "detail": v.detail}]
    return []


def strategy():
    from hypothesis import strategies as st

    fns = PG.functions(PG.Flags())
    scripts = PR.scripts()

    @st.composite
    def cases(draw):
        fn = draw(fns)
        recipe = PG.draw_inputs(draw, fn)
        script = draw(scripts) if fn["gen"] else []
        bn = PG.bound_names(fn)
        decl = PG.declared_scope_names(fn)
        cands = sorted(n for n in bn if n not in decl and not n.startswith("g_"))
        pool = cands * 2 + ["#value"]
        if any(s[0] == "assign" and any(t[0] == "attr" for t in s[1]) for s in PG.walk_stmts(fn["body"])):
            attrs = sorted({f"{t[1]}.{t[2]}" for s in PG.walk_stmts(fn["body"]) if s[0] == "assign"
                            for t in s[1] if t[0] == "attr"})
            pool += attrs * 2
        if fn.get("closure") and any(e == ("var", "cl") for e in PG.walk_exprs(fn["body"])):
            pool.append("cl")
        focus = pool[draw(st.integers(0, len(pool) - 1))]
        ctx_pool = [n for n in cands if n != focus]
        handlers = []
        n = draw(st.integers(1, 3))
        for i in range(n):
            kind = draw(st.sampled_from(["const", "fn", "ctx", "cond", "cond", "eq", "plain"]))
            if kind == "ctx" and not ctx_pool:
                kind = "fn"
            if kind == "plain":
                handlers.append(("plain",))
            else:
                ctx = ctx_pool[draw(st.integers(0, len(ctx_pool) - 1))] if kind == "ctx" else None
                handlers.append(("override", kind, 1000 + 10 * i + draw(st.integers(0, 3)), ctx))
        if not any(h[0] == "override" for h in handlers):
            handlers.append(("override", "const", 1500, None))
        delivery = draw(st.sampled_from(["probe", "probe", "overlay"]))
        return fn, recipe, script, focus, handlers, delivery

    return cases()


def chain_strategy():
    from hypothesis import strategies as st
    from vlib import treegen as T

    fns = ["fa", "fb", "fc"]

    @st.composite
    def cases(draw):
        roots = draw(T.plan_strategy(max_nodes=10, max_depth=4, raising=False))
        target = draw(st.sampled_from(fns))
        chains = []
        for i in range(draw(st.integers(2, 3))):
            depth = draw(st.integers(0, 2))
            chain = []
            for _ in range(depth):
                fn = draw(st.sampled_from(fns))
                if draw(st.integers(0, 2)) == 0:
                    # a value condition on an enclosing call only
                    chain.append([fn, [draw(st.sampled_from(["u", "w"])), draw(st.sampled_from(sorted(PREDS)))]])
                else:
                    chain.append(fn)
            chain.append(target)
            chains.append((chain, 1000 + i))
        return roots, target, chains, draw(st.sampled_from(["probe", "overlay", "overlay-one"]))

    return cases()


def plan(tier, seed, scale):
    if tier == "quick":
        return [{"examples": int(700 * scale)} for _ in range(12)] + \
               [{"examples": int(500 * scale), "chain": True} for _ in range(4)]
    return [{"examples": int(10000 * scale), "chain": i % 4 == 3} for i in range(32)]


def shard(cfg):
    sys.unraisablehook = lambda *a, **k: None
    rec = Recorder()

    if cfg.get("chain"):
        def cbody(case):
            check_chain(*case, rec=rec)

        n, v, herr = hyp_search(chain_strategy(), cbody, seed=cfg["seed"] * 1000 + cfg["shard"],
                                max_examples=cfg["examples"])
        res = rec.result()
        if v is not None:
            roots, target, chains, delivery = v.case
            res["violations"] = [violation_record(PROPERTY, v, {"mode": "chain", "roots": roots, "target": target,
                                                                "chains": [[c, K] for c, K in chains],
                                                                "delivery": delivery})]
        if herr:
            res["harness_errors"] = [herr]
        return res

    def body(case):
        check_case(*case, rec=rec)

    n, v, herr = hyp_search(strategy(), body, seed=cfg["seed"] * 1000 + cfg["shard"], max_examples=cfg["examples"])
    res = rec.result()
    if v is not None:
        fn, recipe, script, focus, handlers, delivery = v.case
        res["violations"] = [violation_record(PROPERTY, v, {
            "fn": fn, "recipe": recipe, "script": script, "focus": focus, "handlers": [list(h) for h in handlers],
            "delivery": delivery, "source": PG.render(fn)})]
    if herr:
        res["harness_errors"] = [herr]
    return res
