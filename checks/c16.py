"""C16 - declared-but-unset variables are supplied from outside or fail loudly.

Domain: generated functions (progen) into which bare annotations (`a: int`, `a: "@A"`) and
conditionally executed reads of undefined globals (UG1, UG2) are injected x input x
configuration: which of those names are instrumented (tooled / in place / probes on a
subset) and which are supplied (Overlay.tweaking on a tooled copy, overriding probes).

Oracle, by case analysis:
  * instrumented declared variable / undefined global: the reference twin fetches it with
    H.declare at the declaration (resp. at entry, which is ptera's documented behaviour for
    globals): supplied -> bound to the supplied value and the run continues; not supplied ->
    NameError exactly there.  The real run must equal the twin (result family, generator
    steps, side-effect log cut at the same place, arguments, globals) and a raised
    PteraNameError must identify variable and function and expose annotation and provenance;
  * not instrumented: plain Python behaviour = the untouched function;
  * in every configuration ptera's ABSENT marker never reaches user code (identity scan of
    the returned / yielded values, events, mutable arguments; 'ABSENT' in logged reprs).
"""

import sys
from contextlib import ExitStack

from vlib import hygiene as HY
from vlib import progen as PG
from vlib import prorun as PR
from vlib.core import PropertyViolation, Recorder, hyp_search, violation_record, h64
from checks import c01

PROPERTY = "C16"
RULE = (
    "case = generated function with 1-3 injected bare annotations and/or guarded reads of undefined globals x "
    "input (choosing the path) x configuration (tooled / in place / probes on a subset of names; supplies "
    "through Overlay.tweaking or overriding probes - by name or by category `name:@A` - for a subset of the "
    "declared / undefined names, declarations also inside handlers / else / finally / with blocks); plus call "
    "sequences on one conditional supplier with subscribers that raise before / after it, and rounds on one "
    "long-lived Overlay instance. "
    "Non-trivial = a declared / undefined name lies on the executed path and is either not instrumented, or "
    "instrumented and not supplied, or supplied while another one is not; distinct by (source, input, config)."
)
ASSUMPTIONS = [
    "for an *instrumented* undefined global ptera raises at entry even if the path never uses it (documented in its own message): the twin declares such names at entry",
    "a declared-only variable may also be assigned on other paths",
]

UGS = ["UG1", "UG2"]
ANNS = ["int", '"@A"', '"@A & @B"']


def inject(draw, fn):
    """Insert bare annotations and undefined-global reads; returns (fn, declared, ugs)."""
    from hypothesis import strategies as st
    import copy

    fn = copy.deepcopy(fn)
    body = fn["body"]
    declared, ugs = [], []
    n = draw(st.integers(1, 3))

    def positions():
        first = 1 if body and body[0][0] == "doc" else 0  # a docstring stays the first statement
        out = [(body, i) for i in range(first, len(body) + 1)]
        for s in body:
            if s[0] in ("for", "while"):
                blk = s[3] if s[0] == "for" else s[2]
                out += [(blk, i) for i in range(len(blk) + 1)]
            elif s[0] == "if":
                out += [(s[2], i) for i in range(len(s[2]) + 1)]
                out += [(s[3], i) for i in range(len(s[3]) + 1)] if s[3] else []
            elif s[0] == "try":
                out += [(s[1], i) for i in range(len(s[1]) + 1)]
                # inside the handlers (named or not), the else and the finally blocks: weighted
                # up, these paths only run when something was raised
                for h in s[2]:
                    out += [(h[2], i) for i in range(len(h[2]) + 1)] * 2
                for blk in (s[3], s[4]):
                    if blk:
                        out += [(blk, i) for i in range(len(blk) + 1)]
            elif s[0] == "with":
                out += [(s[4], i) for i in range(len(s[4]) + 1)]
        return out

    for _ in range(n):
        kind = draw(st.sampled_from(["ann", "ann", "ug"]))
        pos = positions()
        # never after a trailing return at top level: keep it reachable-ish
        blk, i = pos[draw(st.integers(0, len(pos) - 1))]
        if kind == "ann":
            v = draw(st.sampled_from(PG.LOCALS))
            if v in [d[0] for d in declared]:
                continue
            ann = draw(st.sampled_from(ANNS))
            blk.insert(i, ("ann", v, ann, None))
            declared.append((v, ann))
            if draw(st.booleans()):
                # use it right away
                blk.insert(i + 1, ("expr", ("E", f"u{len(declared)}", ("var", v))))
        else:
            ug = draw(st.sampled_from(UGS))
            use = ("expr", ("E", f"g{len(ugs)}", ("bin", "+", ("var", ug), ("int", 1))))
            guard = draw(st.sampled_from([None, ("cmp", ">", ("var", "x"), ("int", 1)), ("cmp", "<", ("var", "x"), ("int", 1))]))
            blk.insert(i, use if guard is None else ("if", guard, [use], []))
            if ug not in ugs:
                ugs.append(ug)
    return fn, declared, ugs


def contains_absent(obj, depth=0):
    from ptera.utils import ABSENT

    if obj is ABSENT:
        return True
    if depth > 4:
        return False
    if isinstance(obj, (list, tuple, set, frozenset)):
        return any(contains_absent(x, depth + 1) for x in obj)
    if isinstance(obj, dict):
        return any(contains_absent(k, depth + 1) or contains_absent(v, depth + 1) for k, v in obj.items())
    d = getattr(obj, "__dict__", None)
    if isinstance(d, dict) and type(obj).__name__ == "Obj":
        return any(contains_absent(v, depth + 1) for v in d.values())
    return False


def ann_value(ann):
    import ptera

    if ann == "int":
        return int
    if ann == '"@A"':
        return ptera.tag.A
    return ptera.tag.A & ptera.tag.B


def run_config(fn, src, recipe, script, config, events, tevents=None, special=()):
    """config = (mode, instrumented names or None for all, supplies dict)."""
    import ptera
    from ptera import probing
    from ptera.overlay import Overlay

    mode, names, supplies = config[:3]
    decliners = config[3] if len(config) > 3 else []
    totals = config[4] if len(config) > 4 else []
    bycat = config[5] if len(config) > 5 else []  # declared names selected as `name:@A` (by category)
    tevents = tevents if tevents is not None else []

    def sel_of(n):
        return f"f > {n}:@A" if n in bycat else f"f > {n}"

    f, glb = PR.load(src)
    target = f
    try:
        with ExitStack() as stack:
            if mode in ("tooled", "inplace"):
                if mode == "tooled":
                    target = ptera.tooled(f)
                else:
                    ptera.tooled.inplace(f)
                if supplies:
                    stack.enter_context(Overlay.tweaking(
                        {ptera.select(f"f > {n}", env={"f": target}): v for n, v in supplies.items()}))
                for n in decliners:
                    # a later-activated handler that declines must not discard the supplied value
                    stack.enter_context(Overlay.rewriting(
                        {ptera.select(f"f > {n}", env={"f": target}): (lambda d: ptera.ABSENT)}, full=False))
            else:
                # probes on ordinary names are entered first (outer), probes on the declared /
                # undefined names inside them (inner): an error raised under the inner probes is
                # inspected while the function is still instrumented by the outer ones
                inner = ExitStack()
                ordered = [n for n in names if n not in special] + [n for n in names if n in special]
                for n in ordered:
                    st_ = inner if n in special else stack
                    if n in supplies:
                        p = probing(sel_of(n), env={"f": f}, overridable=True)
                        p.override(lambda d, v=supplies[n]: v)
                        st_.enter_context(p)
                        if n in decliners:
                            # a second overridable probe that only observes
                            p2 = probing(sel_of(n), env={"f": f}, overridable=True)
                            st_.enter_context(p2.values())
                    elif n in totals:
                        # a total-mode observer: its record is emitted when the call ends
                        sink = st_.enter_context(probing(f"f({n})", env={"f": f}, raw=True).values())
                        tevents.append(sink)
                    else:
                        sink = st_.enter_context(probing(sel_of(n), env={"f": f}).values())
                        events.append(sink)
                with inner:
                    out = PR.run_call(target, fn, recipe, glb, script)
                exc = out.get("exc_obj")
                if type(exc).__name__ == "PteraNameError":
                    try:
                        out["info_mid"] = dict(exc.info())
                    except BaseException as e:  # noqa
                        out["info_mid"] = {"error": repr(e)}
                return out, target, glb
            out = PR.run_call(target, fn, recipe, glb, script)
    finally:
        if HY.global_state_problems():
            HY.force_global_clean()
        PR.forget(glb)
    return out, target, glb


def check_case(fn, declared, ugs, recipe, script, config, rec=None):
    mode, names, supplies = config[:3]
    src = PG.render(fn)
    all_instr = mode in ("tooled", "inplace")
    dnames = [d[0] for d in declared]
    instr_decl = set(dnames) if all_instr else {n for n in dnames if n in names}
    instr_ug = set(ugs) if all_instr else {n for n in ugs if n in names}
    # ---- reference
    # a supply is an override of that variable: it applies at the declaration and at every
    # other binding of the same name (C04 semantics)
    # (a variable selected by category, `name:@A`, is only overridden where a binding carries the
    # tag - for these names that is the declaration alone)
    bycat = set(config[5]) if len(config) > 5 else set()
    H = PR.Hooks(supplies=dict(supplies),
                 policy=lambda name, value, hooks: supplies[name] if name in supplies and name not in bycat else value)
    twin_src = PG.render(fn, twin=True, declared=instr_decl, entry_declares=instr_ug)
    f2, g2 = PR.load(twin_src, extra={"H": H})
    try:
        with PR.time_limit(3.0):
            want = PR.run_call(f2, fn, recipe, g2, script)
    except PR.Timeout:
        return
    finally:
        PR.forget(g2)
    # ---- ptera
    events = []
    tevents = []
    try:
        with PR.time_limit(3.0):
            out, target, glb = run_config(fn, src, recipe, script, config, events, tevents, set(dnames) | set(ugs))
    except PR.Timeout:
        HY.force_global_clean()
        raise PropertyViolation("hang", f"run under {config!r} did not finish within 3 s of CPU time\n{src}")
    except BaseException as e:
        if isinstance(e, (KeyboardInterrupt, SystemExit)):
            raise
        HY.force_global_clean()
        raise PropertyViolation("run", f"configuration {config!r} raised {HY.describe_exc(e)}\n{src}",
                                extra={"bucket": "run:" + HY.exc_bucket(e)})
    ctxt = f"config {config!r} declared {declared} undefined-globals {ugs} input {recipe!r} script {script!r}\n{src}"
    # ---- ABSENT must never reach user code
    leaks = []
    if contains_absent(out.get("ret_obj")):
        leaks.append("return value")
    if any(contains_absent(v) for v in out.get("yielded", [])):
        leaks.append("yielded value")
    if any("ABSENT" in str(x) for entry in out["log"] for x in entry):
        leaks.append("value passed to user code (side-effect log)")
    if any("ABSENT" in v for v in out["watch"].values()):
        leaks.append("mutable argument")
    for sink in events:
        if any(contains_absent(v) for ev in sink for v in ev.values()):
            leaks.append("probe event")
    for sink in tevents:
        if any(contains_absent(list(c.values)) for ev in sink for c in ev.values()):
            leaks.append("total probe record")
    if leaks:
        raise PropertyViolation("absent-leak", f"ptera's ABSENT marker reached user code via: {leaks}; outcome "
                                               f"{out['result']!r}\n{ctxt}", extra={"bucket": "absent-leak"})
    a, b = PR.comparable(want), PR.comparable(out)
    if a != b:
        labels = ["result", "generator steps", "side-effect log", "mutable arguments", "globals"]
        diff = [f"{n}: reference {x!r} vs ptera {y!r}" for n, x, y in zip(labels, a, b) if x != y]
        raise PropertyViolation("behaviour", "\n".join(diff) + "\n" + ctxt,
                                extra={"bucket": "behaviour:" + labels[[x != y for x, y in zip(a, b)].index(True)]})
    exc = out.get("exc_obj")
    if type(exc).__name__ == "PteraNameError":
        if not isinstance(exc, NameError):
            raise PropertyViolation("nameerror", f"PteraNameError is not a NameError\n{ctxt}")
        vn = exc.varname
        if vn in dnames or vn in ugs:
            if exc.function is not target:
                raise PropertyViolation("nameerror", f"PteraNameError.function is {exc.function!r}, not the called function\n{ctxt}")
            try:
                info = exc.info()
            except BaseException as e2:
                raise PropertyViolation(
                    "nameerror", f"PteraNameError({vn!r}).info() raised {HY.describe_exc(e2)} when inspected after the "
                                 f"call\n{ctxt}", extra={"bucket": "nameerror-info"})
            if vn in dnames:
                want_ann = ann_value(dict(declared)[vn])
                n_ann = sum(1 for s_ in PG.walk_stmts(fn["body"]) if s_[0] == "ann" and s_[1] == vn)
                if n_ann > 1:
                    want_ann = info.get("annotation")  # annotated more than once: which one is recorded is not stated
                if info.get("provenance") != "body" or info.get("annotation") != want_ann:
                    raise PropertyViolation(
                        "nameerror", f"PteraNameError for {vn}: info() gives provenance={info.get('provenance')!r} "
                                     f"annotation={info.get('annotation')!r}, expected 'body' and {want_ann!r}\n{ctxt}")
                mid = out.get("info_mid")
                if mid is not None and (mid.get("provenance") != "body" or mid.get("annotation") != want_ann):
                    raise PropertyViolation(
                        "nameerror", f"PteraNameError for {vn} inspected while other probes on the function were still "
                                     f"active: info() gave {mid!r}, expected provenance 'body' and annotation {want_ann!r}\n{ctxt}",
                        extra={"bucket": "nameerror-info-mid"})
            elif info.get("provenance") != "external":
                raise PropertyViolation("nameerror", f"PteraNameError for {vn}: provenance {info.get('provenance')!r}, expected 'external'\n{ctxt}")
    if rec is not None:
        declares_hit = [t[1] for t in H.trace if t[0] == "bind" and t[1] in supplies]
        res = want["result"]
        feats = {"mode:" + mode, "outcome:" + res[0]}
        uninstr = (set(dnames) - instr_decl) | (set(ugs) - instr_ug)
        if uninstr:
            feats.add("some-uninstrumented")
        if res[0] == "exc" and res[1] in ("NameError", "UnboundLocalError"):
            feats.add("ends-by-nameerror")
        if declares_hit:
            feats.add("supplied-on-path")
        if instr_ug:
            feats.add("eager_external_nameerror" if not set(instr_ug) <= set(supplies) else "external-supplied")
        nt = bool(uninstr) or "ends-by-nameerror" in feats or (declares_hit and len(supplies) < len(dnames) + len(ugs))
        rec.case(h64(repr((src, recipe, script, config))), bool(nt), feats,
                 sample=lambda: {"source": src, "input": recipe, "config": [mode, names, supplies],
                                 "outcome": list(res)})


# ---- call sequences on one conditional supplier ---------------------------------------------

SEQ_SRC = '''
def f(x):
    a: int
    b = a + x
    return b
'''


class Audit(Exception):
    pass


def check_sequence(xs, mod, rem, K, aud_before, aud_after, rec=None):
    """One overriding probe `f(x) > a` used for a whole sequence of calls: it supplies K only
    when x % mod == rem (documented filter-then-override pipeline); subscribers attached before
    and after the supplier raise Audit for some x.  Each call is decided on its own:
      raised by an auditor -> Audit;  supplied -> K + x;  otherwise -> ptera's NameError."""
    from ptera import probing

    f, glb = PR.load(SEQ_SRC)
    want, got = [], []
    for x in xs:
        if x in aud_before:
            want.append(("exc", "Audit"))
        elif x % mod == rem:
            want.append(("exc", "Audit") if x in aud_after else ("ret", K + x))
        else:
            want.append(("exc", "Audit") if x in aud_after else ("exc", "PteraNameError"))

    def auditor(bad):
        def audit(d):
            if d["x"] in bad:
                raise Audit(d["x"])
        return audit

    try:
        with probing("f(x) > a", env={"f": f}, overridable=True) as prb:
            if aud_before:
                prb.subscribe(auditor(aud_before))
            prb.filter(lambda d: d["x"] % mod == rem).override(K)
            if aud_after:
                prb.subscribe(auditor(aud_after))
            for x in xs:
                try:
                    got.append(("ret", f(x)))
                except BaseException as e:  # noqa
                    if isinstance(e, (KeyboardInterrupt, SystemExit)):
                        raise
                    got.append(("exc", type(e).__name__))
    except BaseException as e:
        if isinstance(e, (KeyboardInterrupt, SystemExit)):
            raise
        HY.force_global_clean()
        raise PropertyViolation("run", f"sequence harness raised {HY.describe_exc(e)}")
    finally:
        if HY.global_state_problems():
            HY.force_global_clean()
        PR.forget(glb)
    if got != want:
        i = next(k for k in range(len(want)) if got[k] != want[k])
        raise PropertyViolation(
            "sequence",
            f"probe f(x) > a supplying {K} when x % {mod} == {rem}, auditors raising before the supplier for "
            f"{sorted(aud_before)} and after it for {sorted(aud_after)}; calls {xs}: call #{i} f({xs[i]}) gave "
            f"{got[i]!r}, expected {want[i]!r}; all outcomes {got!r}",
            extra={"bucket": "sequence:" + want[i][1] if want[i][0] == "exc" else "sequence:ret"})
    if rec is not None:
        kinds = {w[1] if w[0] == "exc" else "ret" for w in want}
        rec.case(h64(repr((xs, mod, rem, K, sorted(aud_before), sorted(aud_after)))), len(kinds) >= 2,
                 {"mode:sequence"} | {"seq:" + k for k in kinds},
                 sample=lambda: {"calls": xs, "supply_when": f"x % {mod} == {rem}", "outcomes": want[:6]})


CAT_SRC = '''
def f(x):
    if x % 2:
        a: tag.T
    else:
        a: int
    b = a + x
    return b
'''


def check_category_rounds(rounds, rec=None):
    """One function declaring `a` at two sites with different annotations (odd x: tag.T, even x:
    int); every round is one overriding probe supplying K - `f > a:@T` (covers the tagged
    declaration only), `f > a` (covers both) or no probe at all - and some calls."""
    import ptera
    from ptera import probing

    f, glb = PR.load(CAT_SRC, extra={"tag": ptera.tag})
    want, got = [], []
    try:
        for how, K, xs in [r[:3] for r in rounds]:
            import contextlib

            sel = {"cat-T": "f > a:@T", "cat-plain": "f > a", "cat-none": None}[how]
            with (probing(sel, env={"f": f}, overridable=True) if sel else contextlib.nullcontext()) as prb:
                if sel:
                    prb.override(K)
                for x in xs:
                    covered = how == "cat-plain" or (how == "cat-T" and x % 2 == 1)
                    want.append(("ret", K + x) if covered else ("exc", "NameError-family"))
                    try:
                        got.append(("ret", f(x)))
                    except BaseException as e:  # noqa
                        if isinstance(e, (KeyboardInterrupt, SystemExit)):
                            raise
                        n = type(e).__name__
                        got.append(("exc", "NameError-family" if n in ("UnboundLocalError", "NameError", "PteraNameError") else n))
    except BaseException as e:
        if isinstance(e, (KeyboardInterrupt, SystemExit)):
            raise
        HY.force_global_clean()
        raise PropertyViolation("run", f"category rounds {rounds!r}: harness raised {HY.describe_exc(e)}")
    finally:
        if HY.global_state_problems():
            HY.force_global_clean()
        PR.forget(glb)
    if got != want:
        i = next(k for k in range(len(want)) if got[k] != want[k])
        raise PropertyViolation(
            "sequence", f"f declares `a: tag.T` for odd x and `a: int` for even x; rounds of one overriding probe each "
                        f"(cat-T = 'f > a:@T', cat-plain = 'f > a', cat-none = no probe) {rounds!r}: outcome #{i} is "
                        f"{got[i]!r}, expected {want[i]!r}; all outcomes {got!r}",
            extra={"bucket": "category-rounds"})
    if rec is not None:
        kinds = [r[0] for r in rounds]
        rec.case(h64(repr(rounds)), len(set(kinds)) >= 2, {"mode:category-rounds"},
                 sample=lambda: {"rounds": [list(r) for r in rounds], "outcomes": want[:6]})


def check_overlay_rounds(rounds, rec=None):
    if rounds and rounds[0][0].startswith("cat-"):
        return check_category_rounds(rounds, rec)
    """One long-lived Overlay instance; every round derives a with-block from it
    (base.tweaking / base.rewriting supplying `a`, or the bare base) and calls f: what one round
    supplied must not be supplied in a later round."""
    import ptera
    from ptera.overlay import Overlay

    f, glb = PR.load(SEQ_SRC)
    tf = ptera.tooled(f)
    sel = ptera.select("f > a", env={"f": tf})
    base = Overlay()
    late = Overlay()  # a second long-lived instance, configured in place between its uses
    late.tap(ptera.select("f > b", env={"f": tf}), dest=[])  # (it listens to b from the start)
    late_K = None
    want, got = [], []
    try:
        for rnd in rounds:
            how, K, xs = rnd[:3]
            nest = len(rnd) > 3 and rnd[3]
            if how == "late-add":
                # the supply is added to the `late` overlay itself (tweak, in place) - once
                if late_K is None:
                    late.tweak({sel: K})
                    late_K = K
                continue
            if how == "late":
                with late:
                    for x in xs:
                        want.append(("ret", late_K + x) if late_K is not None else ("exc", "PteraNameError"))
                        try:
                            got.append(("ret", tf(x)))
                        except BaseException as e:  # noqa
                            if isinstance(e, (KeyboardInterrupt, SystemExit)):
                                raise
                            got.append(("exc", type(e).__name__))
                continue
            if how == "tweaking":
                cm = base.tweaking({sel: K})
            elif how == "rewriting":
                cm = base.rewriting({sel: (lambda d, K=K: K)})
            else:
                cm = base
            with cm:
                if nest and how != "bare":
                    # an overlay derived from the active one is entered and left again: the
                    # active one keeps supplying
                    with cm.tapping(sel, dest=[]):
                        pass
                for x in xs:
                    want.append(("ret", K + x) if how != "bare" else ("exc", "PteraNameError"))
                    try:
                        got.append(("ret", tf(x)))
                    except BaseException as e:  # noqa
                        if isinstance(e, (KeyboardInterrupt, SystemExit)):
                            raise
                        got.append(("exc", type(e).__name__))
    except BaseException as e:
        if isinstance(e, (KeyboardInterrupt, SystemExit)):
            raise
        HY.force_global_clean()
        raise PropertyViolation("run", f"overlay rounds harness raised {HY.describe_exc(e)}")
    finally:
        if HY.global_state_problems():
            HY.force_global_clean()
        PR.forget(glb)
    if got != want:
        i = next(k for k in range(len(want)) if got[k] != want[k])
        raise PropertyViolation(
            "sequence", f"one Overlay instance, rounds {rounds!r} (tweaking/rewriting supply `a`, bare supplies "
                        f"nothing; `late` enters a second instance that supplies `a` only once `late-add` has added a tweak to it): outcome #{i} is {got[i]!r}, expected {want[i]!r}; all outcomes {got!r}",
            extra={"bucket": "overlay-rounds"})
    if rec is not None:
        kinds = {r[0] for r in rounds}
        rec.case(h64(repr(rounds)), ("bare" in kinds or "late" in kinds) and len(kinds) >= 2,
                 {"mode:overlay-rounds"} | ({"overlay-configured-between-uses"} if [r[0] for r in rounds if r[0].startswith("late")][:2] == ["late", "late-add"] else set()) | ({"derived-overlay-nested"} if any(len(r) > 3 and r[3] for r in rounds) else set()),
                 sample=lambda: {"rounds": [list(r) for r in rounds], "outcomes": want[:6]})


def replay(payload):
    if payload.get("mode") == "overlay-rounds":
        try:
            check_overlay_rounds([(r[0], r[1], list(r[2])) + tuple(r[3:]) for r in payload["rounds"]])
        except PropertyViolation as v:
            return [{"clause": v.clause, "detail": v.detail}]
        return []
    if payload.get("mode") == "sequence":
        try:
            check_sequence(payload["xs"], payload["mod"], payload["rem"], payload["K"], set(payload["aud_before"]),
                           set(payload["aud_after"]))
        except PropertyViolation as v:
            return [{"clause": v.clause, "detail": v.detail}]
        return []
    fn = payload["fn"]
    fn["params"] = [tuple(p) for p in fn["params"]]
    fn["body"] = c01._tuplify(fn["body"])
    fn["closure"] = [tuple(c) for c in fn.get("closure") or []]
    recipe = {k: (v[0], v[1]) for k, v in payload["recipe"].items()}
    script = [tuple(s) for s in payload["script"]]
    cfg = payload["config"]
    config = (cfg[0], cfg[1], dict(cfg[2]), list(cfg[3]) if len(cfg) > 3 else [], list(cfg[4]) if len(cfg) > 4 else [],
              list(cfg[5]) if len(cfg) > 5 else [])
    try:
        check_case(fn, [tuple(d) for d in payload["declared"]], payload["ugs"], recipe, script, config)
    except PropertyViolation as v:
        return [{"clause": v.clause, "detail": v.detail}]
    return []


def strategy():
    from hypothesis import strategies as st

    fns = PG.functions(PG.Flags(max_stmts=7))
    scripts = PR.scripts()

    @st.composite
    def cases(draw):
        if draw(st.integers(0, 47)) == 1:
            rounds = draw(st.lists(st.tuples(st.sampled_from(["cat-T", "cat-plain", "cat-none"]), st.sampled_from([0, 500, 7]),
                                             st.lists(st.integers(0, 7), min_size=1, max_size=3), st.just(False)),
                                   min_size=2, max_size=4))
            return ("overlay-rounds", rounds)
        if draw(st.integers(0, 23)) == 0:
            rounds = draw(st.lists(st.tuples(st.sampled_from(["tweaking", "rewriting", "bare", "bare", "late", "late", "late-add"]),
                                             st.sampled_from([0, 500, 7]),
                                             st.lists(st.integers(0, 7), min_size=1, max_size=3), st.booleans()),
                                   min_size=2, max_size=5))
            return ("overlay-rounds", rounds)
        if draw(st.integers(0, 11)) == 0:
            xs = draw(st.lists(st.integers(0, 7), min_size=2, max_size=7))
            mod = draw(st.integers(1, 3))
            return ("sequence", xs, mod, draw(st.integers(0, mod - 1)), draw(st.sampled_from([0, 500, 7])),
                    set(draw(st.lists(st.integers(0, 7), max_size=2))), set(draw(st.lists(st.integers(0, 7), max_size=3))))
        base = draw(fns)
        fn, declared, ugs = inject(draw, base)
        recipe = PG.draw_inputs(draw, fn)
        script = draw(scripts) if fn["gen"] else []
        special = [d[0] for d in declared] + ugs
        bn = sorted(n for n in PG.bound_names(fn) if not n.startswith("g_"))
        mode = draw(st.sampled_from(["tooled", "tooled", "inplace", "probes", "probes", "probes"]))
        supplies = {}
        falsy = [0, None, False, "", 500, 501, 502]
        for i, n in enumerate(special):
            if draw(st.integers(0, 2)) == 0:
                supplies[n] = falsy[draw(st.integers(0, len(falsy) - 1))]
        names = None
        if mode == "probes":
            names = []
            for n in special:
                if draw(st.booleans()) or n in supplies:
                    names.append(n)
            for _ in range(draw(st.integers(0, 2))):
                if bn:
                    c = bn[draw(st.integers(0, len(bn) - 1))]
                    if c not in names:
                        names.append(c)
            if not names:
                names = [bn[0]] if bn else ["#enter"]
            supplies = {k: v for k, v in supplies.items() if k in names}
        decliners = [n for n in supplies if draw(st.integers(0, 2)) == 0]
        totals = [n for n in (names or []) if n not in supplies and n in [d[0] for d in declared] and draw(st.integers(0, 2)) == 0]
        # declared variables whose (only) annotation carries @A may be selected by category
        n_ann = {}
        for s_ in PG.walk_stmts(fn["body"]):
            if s_[0] == "ann":
                n_ann[s_[1]] = n_ann.get(s_[1], 0) + 1
        bycat = [n for n, a in declared if "@A" in a and n_ann.get(n) == 1 and n in (names or []) and n not in totals
                 and draw(st.booleans())]
        return fn, declared, ugs, recipe, script, (mode, names, supplies, decliners, totals, bycat)

    return cases()


def plan(tier, seed, scale):
    if tier == "quick":
        return [{"examples": int(700 * scale)} for _ in range(16)]
    return [{"examples": int(10000 * scale)} for _ in range(32)]


def shard(cfg):
    sys.unraisablehook = lambda *a, **k: None
    rec = Recorder()

    def body(case):
        if case[0] == "overlay-rounds":
            return check_overlay_rounds(case[1], rec=rec)
        if case[0] == "sequence":
            return check_sequence(*case[1:], rec=rec)
        check_case(*case, rec=rec)

    n, v, herr = hyp_search(strategy(), body, seed=cfg["seed"] * 1000 + cfg["shard"], max_examples=cfg["examples"])
    res = rec.result()
    if v is not None and v.case[0] == "overlay-rounds":
        res["violations"] = [violation_record(PROPERTY, v, {"mode": "overlay-rounds",
                                                            "rounds": [list(r) for r in v.case[1]]})]
    elif v is not None and v.case[0] == "sequence":
        _, xs, mod, rem, K, ab, aa = v.case
        res["violations"] = [violation_record(PROPERTY, v, {"mode": "sequence", "xs": xs, "mod": mod, "rem": rem, "K": K,
                                                            "aud_before": sorted(ab), "aud_after": sorted(aa)})]
    elif v is not None:
        fn, declared, ugs, recipe, script, config = v.case
        res["violations"] = [violation_record(PROPERTY, v, {
            "fn": fn, "declared": [list(d) for d in declared], "ugs": ugs, "recipe": recipe, "script": script,
            "config": [config[0], config[1], config[2], config[3], config[4], config[5] if len(config) > 5 else []],
            "source": PG.render(fn)})]
    if herr:
        res["harness_errors"] = [herr]
    return res
