"""C07 - total probes emit one complete record per outermost call.

Domain: call plans x focus-free selector trees (and focused trees forced with
probe_type="total").  Oracle: vlib.model_paths.total_records / forced_total_records.
"""

from vlib import family as F
from vlib import hygiene as HY
from vlib import model_paths as M
from vlib import treegen as T
from vlib.core import PropertyViolation, Recorder, hyp_search, violation_record, h64

PROPERTY = "C07"
RULE = (
    "case = (call plan over fa/fb/fc, as in C03) x (focus-free selector tree, two focus-free trees in one probe, a "
    "focus-free and a focused tree in one probe with the default probe type, or focused tree forced to "
    "total mode) x delivery (probing(raw=True) / BaseOverlay+Total on tooled copies). Non-trivial = the "
    "outermost function is activated recursively, or a record holds a capture with >=2 values coming from "
    ">=2 different activations, or an outermost activation ends by exception, or a record is suppressed "
    "because a capture stayed empty; distinct by (plan, selector, mode)."
)
ASSUMPTIONS = [
    "values are reported once per embedding of the sub-chain (the reading consistent with C03)",
    "forced-total records of one closing activation are compared as a multiset",
]

_STATES = None
# the generator member `ga` (driven by list()) takes part with a lower weight
GFNS = ["fa", "fb", "fc", "fa", "fb", "fc", "ga", "ha", "hb"]


def _states():
    global _STATES
    if _STATES is None:
        _STATES = [HY.FnState(f) for f in F.RAW.values()]
    return _STATES


def _cleanup():
    for s in _states():
        if s.is_clean():
            s.force_clean()
    if HY.global_state_problems():
        HY.force_global_clean()


def _rename(sel, prefix):
    from vlib import selgen as G

    return G.CallN(
        sel.fn,
        sel.fntag,
        tuple(c._replace(alias=prefix + c.alias[1:]) for c in sel.caps),
        tuple(_rename(ch, prefix) for ch in sel.children),
    )


def check_pair(sel1, sel2, roots, rec=None):
    """Two focus-free selectors in ONE probe: each must get exactly its own records."""
    from ptera import probing
    import copy

    sel2 = _rename(sel2, "d")
    t1, t2 = T.spelling(sel1), T.spelling(sel2)
    trace = M.simulate(roots)
    F.DISPATCH.update(F.RAW)
    try:
        with probing(t1, t2, env=T.env(), raw=True).values() as vals:
            F.drive(copy.deepcopy(roots))
    except BaseException as e:
        _cleanup()
        raise PropertyViolation(
            "run", f"probing({t1!r}, {t2!r}) raised {HY.describe_exc(e)}", extra={"bucket": "run:" + HY.exc_bucket(e)}
        )
    try:
        events = [{k: list(c.values) for k, c in ev.items()} for ev in vals]
        e1 = [e for e in events if all(k.startswith("c") for k in e)]
        e2 = [e for e in events if all(k.startswith("d") for k in e)]
        if len(e1) + len(e2) != len(events):
            raise PropertyViolation("records", f"pair: records mixing both selectors' captures: {events!r}")
        x1, x2 = M.total_records(sel1, trace), M.total_records(sel2, trace)
        if e1 != x1 or e2 != x2:
            raise PropertyViolation(
                "records", f"probing({t1!r}, {t2!r}): expected {x1!r} and {x2!r}, got {e1!r} and {e2!r}"
            )
    finally:
        _cleanup()
    if rec is not None:
        nt = bool(x1) and bool(x2)
        rec.case(h64(repr((roots, sel1, sel2))), nt, {"mode:pair"},
                 sample=lambda: {"plan": T.plan_brief(roots), "selectors": [t1, t2], "records": [x1[:2], x2[:2]]})


def check_mixed(sel1, sel2, roots, focused_first, rec=None):
    """A focus-free selector sharing ONE probe (default probe_type) with a focused one: the
    focus-free selector still gets one complete record per outermost call, the focused one
    its immediate events."""
    from ptera import probing
    import copy

    sel2 = _rename(sel2, "d")
    t1, t2 = T.spelling(sel1), T.spelling(sel2)
    texts = (t2, t1) if focused_first else (t1, t2)
    trace = M.simulate(roots)
    F.DISPATCH.update(F.RAW)
    try:
        with probing(*texts, env=T.env(), raw=True).values() as vals:
            F.drive(copy.deepcopy(roots))
    except BaseException as e:
        _cleanup()
        raise PropertyViolation(
            "run", f"probing{texts!r} raised {HY.describe_exc(e)}", extra={"bucket": "run:" + HY.exc_bucket(e)}
        )
    try:
        e1 = [{k: list(c.values) for k, c in ev.items()} for ev in vals if all(k.startswith("c") for k in ev)]
        e2 = [{k: c.value for k, c in ev.items()} for ev in vals if all(k.startswith("d") for k in ev)]
        if len(e1) + len(e2) != len(list(vals)):
            raise PropertyViolation("records", f"mixed probe: records mixing both selectors' captures")
        x1 = M.total_records(sel1, trace)
        if e1 != x1:
            raise PropertyViolation(
                "records", f"probing{texts!r}: the focus-free selector must deliver {x1!r}, got {e1!r}"
            )
        groups = M.immediate_events(sel2, trace)
        i = 0
        for g in groups:
            seg = e2[i:i + len(g)]
            if M.multiset(seg) != M.multiset(g):
                raise PropertyViolation(
                    "records", f"probing{texts!r}: the focused selector must deliver {groups!r}, got {e2!r}")
            i += len(g)
        if i != len(e2):
            raise PropertyViolation(
                "records", f"probing{texts!r}: the focused selector got extra events {e2[i:]!r}")
    finally:
        _cleanup()
    if rec is not None:
        nt = bool(x1) and any(groups)
        rec.case(h64(repr((roots, sel1, sel2, focused_first))), nt, {"mode:mixed"},
                 sample=lambda: {"plan": T.plan_brief(roots), "selectors": list(texts), "records": x1[:2]})


def check_case(sel, roots, mode, choices, rec=None):
    if mode == "pair":
        return check_pair(sel[0], sel[1], roots, rec)
    if mode in ("mixed", "mixed-focused-first"):
        return check_mixed(sel[0], sel[1], roots, mode == "mixed-focused-first", rec)
    text = T.spelling(sel, choices)
    trace = M.simulate(roots)
    try:
        if mode == "probing":
            events, out = T.run_probing(text, roots, raw=True)
        elif mode == "overlay":
            events, out = T.run_overlay(text, roots, total=True)
        else:
            events, out = T.run_probing(text, roots, raw=True, probe_type="total")
    except BaseException as e:
        _cleanup()
        raise PropertyViolation(
            "run", f"{mode} of {text!r} raised {HY.describe_exc(e)}", extra={"bucket": "run:" + HY.exc_bucket(e)}
        )
    try:
        if mode == "forced":
            groups = M.forced_total_records(sel, trace)
            i = 0
            for gi, g in enumerate(groups):
                got = events[i : i + len(g)]
                if M.multiset(got) != M.multiset(g):
                    raise PropertyViolation(
                        "records",
                        f"forced total {text!r}: closing activation #{gi}: expected {g!r}, got {got!r}",
                    )
                i += len(g)
            if i != len(events):
                raise PropertyViolation("records", f"forced total {text!r}: extra records {events[i:]!r}")
            expected = [r for g in groups for r in g]
        else:
            expected = M.total_records(sel, trace)
            if events != expected:
                raise PropertyViolation(
                    "records", f"{mode}({text!r}): expected records {expected!r}, got {events!r}"
                )
        if mode != "overlay":
            probs = [p for s in _states() for p in s.is_clean()] + HY.global_state_problems()
            if probs:
                raise PropertyViolation("cleanup", f"after the probe block: {probs}")
    finally:
        _cleanup()
    if rec is not None:
        feats = {"mode:" + mode}
        outer = [a for a in trace.acts if a.fn == sel.fn]
        if any(any(b.fn == sel.fn for b in a.ancestors()) for a in outer):
            feats.add("recursive-outer")
        n_closed = len([e for e in trace.exits if e[1].fn == sel.fn])
        if any(e[1].fn == sel.fn and e[2] == "raise" for e in trace.exits):
            feats.add("outer-raises")
        if len(expected) < n_closed and mode != "forced":
            feats.add("suppressed-record")
        if any(len(v) >= 2 for r in expected for v in r.values()):
            feats.add("multi-valued")
        if expected:
            feats.add("has-records")
        if M.focus_path(sel) and len(M.focus_path(sel)) >= 2:
            feats.add("chain>=2")
        if any(len(n.children) for _, n in M.all_nodes(sel)):
            feats.add("nested")
        nt = bool(feats & {"recursive-outer", "outer-raises", "suppressed-record", "multi-valued"})
        rec.case(
            h64(repr((roots, sel, mode))),
            nt,
            feats,
            sample=lambda: {"plan": T.plan_brief(roots), "selector": text, "mode": mode, "records": expected[:4]},
        )


def replay(payload):
    from vlib import selgen as G

    sel = eval(payload["selector"], {"CallN": G.CallN, "Cap": G.Cap})
    try:
        check_case(sel, payload["plan"], payload["mode"], payload["choices"] or None)
    except PropertyViolation as v:
        return [{"clause": v.clause, "detail": v.detail}]
    return []


def plan(tier, seed, scale):
    if tier == "quick":
        return [{"examples": int(1200 * scale), "nodes": 12, "depth": 5} for _ in range(16)]
    return [{"examples": int(9000 * scale), "nodes": 12 if i % 2 else 40, "depth": 5 if i % 2 else 7}
            for i in range(32)]


def shard(cfg):
    from hypothesis import strategies as st

    rec = Recorder()
    free = st.tuples(
        T.selector_strategy(max_depth=3, focus="no", fns=GFNS),
        T.plan_strategy(max_nodes=cfg["nodes"], max_depth=cfg["depth"], fns=GFNS),
        st.sampled_from(["probing", "overlay"]),
        st.one_of(st.none(), st.lists(st.integers(0, 3), min_size=4, max_size=12)),
    )
    forced = st.tuples(
        T.selector_strategy(max_depth=3, focus="yes", fns=GFNS),
        T.plan_strategy(max_nodes=cfg["nodes"], max_depth=cfg["depth"], fns=GFNS),
        st.just("forced"),
        st.one_of(st.none(), st.lists(st.integers(0, 3), min_size=4, max_size=12)),
    )
    pair = st.tuples(
        st.tuples(T.selector_strategy(max_depth=3, focus="no", fns=GFNS), T.selector_strategy(max_depth=2, focus="no", fns=GFNS)),
        T.plan_strategy(max_nodes=cfg["nodes"], max_depth=cfg["depth"], fns=GFNS),
        st.just("pair"),
        st.none(),
    )
    mixed = st.tuples(
        st.tuples(T.selector_strategy(max_depth=3, focus="no", fns=GFNS), T.selector_strategy(max_depth=2, focus="yes", fns=GFNS)),
        T.plan_strategy(max_nodes=cfg["nodes"], max_depth=cfg["depth"], fns=GFNS),
        st.sampled_from(["mixed", "mixed-focused-first"]),
        st.none(),
    )
    strat = st.one_of(free, free, free, forced, forced, pair, mixed)

    def body(case):
        sel, roots, mode, choices = case
        check_case(sel, roots, mode, choices, rec)

    n, v, herr = hyp_search(strat, body, seed=cfg["seed"] * 1000 + cfg["shard"], max_examples=cfg["examples"], case_cpu_s=30.0)
    res = rec.result()
    if v is not None:
        sel, roots, mode, choices = v.case
        res["violations"] = [
            violation_record(PROPERTY, v, {"selector": repr(sel), "plan": roots, "mode": mode,
                                           "choices": list(choices or [])})
        ]
    if herr:
        res["harness_errors"] = [herr]
    return res
