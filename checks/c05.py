"""C05 - probes deliver exactly-once while active and leave no trace once deactivated.

Stateful: a Hypothesis RuleBasedStateMachine generates histories over
{enter with-block, leave innermost with-block (normally / by exception / with a reducer that
raises on completion), activate global probe, deactivate any global probe, call, refused
activation attempt}.  A plain simulator (`Sim`) applies each operation to ptera and to a
model (set of active probes + vlib.model_paths); invariants run after every step.
"""

import copy

from vlib import family as F
from vlib import hygiene as HY
from vlib import model_paths as M
from vlib import selgen as G
from vlib.core import PropertyViolation, Recorder, hyp_stateful, violation_record, h64

PROPERTY = "C05"
RULE = (
    "history = sequence (<=25 quick / <=60 thorough steps) of {with <spec>, leave (normal | by exception), "
    "global-activate <spec>, global-deactivate <any active>, call <plan>, refused activation <kind>, "
    "fresh-probe probe, start / advance / close / drop a generator object, activate / deactivate a global probe "
    "from inside a running call} over 12 probe specs with overlapping "
    "selectors on fa/fb/fc/ga (immediate, chain, sibling calls, total, overridable, two-selector, strict reducer, "
    "one capture name used for two different variables). evaluations = operations applied. A history is "
    "non-trivial when a call happens after a non-LIFO deactivation, after an exceptional exit or after a "
    "refused activation, with >=2 probes having been active together, or a generator object lives across a "
    "change of the active set; distinct by history hash."
)
ASSUMPTIONS = [
    "an empty handler collection is as good as None at quiescence",
    "double deactivate() of a global probe is outside the domain",
]


def _c(fn, caps=(), children=()):
    return G.CallN(fn, None, tuple(caps), tuple(children))


def _cap(name, alias, focus=0):
    return G.Cap(name, alias, None, None, "=", focus)


SPECS = [
    {"name": "fa>u", "sels": [_c("fa", [_cap("u", "a0", 1)])], "mode": "imm"},
    {"name": "fa(w)>u", "sels": [_c("fa", [_cap("w", "b0"), _cap("u", "b1", 1)])], "mode": "imm"},
    {"name": "fb>fa>u", "sels": [_c("fb", [], [_c("fa", [_cap("u", "c0", 1)])])], "mode": "imm"},
    {"name": "fb>u", "sels": [_c("fb", [_cap("u", "d0", 1)])], "mode": "imm"},
    {"name": "total fa(u)", "sels": [_c("fa", [_cap("u", "e0")])], "mode": "total"},
    {"name": "overridable fa>u", "sels": [_c("fa", [_cap("u", "g0", 1)])], "mode": "imm", "overridable": True},
    {"name": "fc(w)>fa>#value", "sels": [_c("fc", [_cap("w", "h0")], [_c("fa", [_cap("#value", "h1", 1)])])],
     "mode": "imm"},
    {"name": "two selectors", "sels": [_c("fa", [_cap("w", "i0", 1)]), _c("fb", [_cap("w", "i1", 1)])],
     "mode": "imm"},
    {"name": "fa>u |min", "sels": [_c("fa", [_cap("u", "j0", 1)])], "mode": "imm", "reducer": "j0"},
    # sibling calls under one call (the guide's `main(x, side(x as x2), negmul(!a))` shape)
    {"name": "fa(w, fb(u), fc(!u))", "sels": [_c("fa", [_cap("w", "k0")], [_c("fb", [_cap("u", "k1")]),
                                                                         _c("fc", [_cap("u", "k2", 1)])])],
     "mode": "imm"},
    {"name": "fb(fc(!w), fa(u))", "sels": [_c("fb", [], [_c("fc", [_cap("w", "l0", 1)]), _c("fa", [_cap("u", "l1")])])],
     "mode": "imm"},
    # the generator member (events of generator objects driven by the gen* operations are don't-care)
    {"name": "ga>u", "sels": [_c("ga", [_cap("u", "m0", 1)])], "mode": "imm"},
    # two probes that use the SAME capture name for different variables of fa
    {"name": "fa>u as s0", "sels": [_c("fa", [_cap("u", "s0", 1)])], "mode": "imm"},
    {"name": "fa>w as s0", "sels": [_c("fa", [_cap("w", "s0", 1)])], "mode": "imm"},
]
GEN_VALUE = 50000  # values bound by generator objects of the gen* operations are >= this

BAD = {
    "unknown-var": (["fa > nonexistent"], {}),
    "second-invalid": (["fa > u", "fb > nonexistent"], {}),
    "chain-unknown": (["fb > fa > nonexistent"], {}),
    "bad-meta": (["fc(!#foo)"], {}),
    "first-ok-second-unresolvable": (["fa > u", "nosuchfn > u"], {}),
    "overridable-nofocus": (["fa(u)"], {"overridable": True}),
    "focus2-only": (["fb(!!u)"], {}),
}


def spec_expected(spec, trace, after=None, before=None):
    """Time-ordered list of groups (multisets) this probe must receive for one call.  after /
    before (immediate specs only): the probe is activated / deactivated at that time, from inside
    the call - it hears the activations entered after `after`, and nothing from `before` on."""
    timed = []
    within = None if after is None else (lambda t: t > after)
    for sel in spec["sels"]:
        if spec["mode"] == "imm":
            timed += M.immediate_events(sel, trace, within=within, with_time=True)
        else:
            timed += M.total_records(sel, trace, with_time=True)
    if before is not None:
        timed = [(t, g) for t, g in timed if t < before]
    timed.sort(key=lambda tg: tg[0])
    out = []
    last_t = None
    for t, g in timed:
        if t == last_t:
            out[-1] = out[-1] + g
        else:
            out.append(list(g))
        last_t = t
    return out


def fns_of(spec):
    out = set()
    for sel in spec["sels"]:
        for _, n in M.all_nodes(sel):
            out.add(n.fn)
    return out


class Rec:
    cm = None

    def __init__(self, rid, si, kind):
        self.id = rid
        self.si = si
        self.spec = SPECS[si]
        self.kind = kind
        self.probe = None
        self.sink = None
        self.red = None
        self.expected = []
        self.active = False


class Sim:
    """Applies operations to ptera and to the model."""

    def __init__(self):
        self.recs = []
        self.stack = []  # with-block Recs, innermost last
        self.globals = []  # active global Recs in activation order
        self.history = []
        self.states = {k: HY.FnState(f) for k, f in F.RAW.items()}
        self.flags = set()
        self.max_active = 0
        self.gens = {}
        self.active_at_gen = {}
        F.DISPATCH.update(F.RAW)
        self.env = dict(F.RAW)

    # -- operations ---------------------------------------------------------------------
    def apply(self, op):
        self.history.append(op)
        kind = op[0]
        getattr(self, "op_" + kind)(*op[1:])
        self.check()

    def _make(self, rec, global_):
        from ptera.probe import Probe, OverridableProbe

        texts = [G.canonical(s) for s in rec.spec["sels"]]
        cls = OverridableProbe if rec.spec.get("overridable") else Probe
        raw = rec.spec["mode"] == "total"
        rec.probe = cls(*texts, env=self.env, raw=raw)

    def op_with(self, si):
        rec = Rec(len(self.recs), si, "with")
        self.recs.append(rec)
        self._make(rec, False)
        rec.sink = rec.probe.accum()
        if rec.spec.get("reducer"):
            rec.red = rec.probe[rec.spec["reducer"]].min().accum()
        try:
            rec.probe.__enter__()
        except BaseException as e:
            raise PropertyViolation("activate", f"entering {rec.spec['name']} raised {HY.describe_exc(e)}",
                                    extra={"bucket": "activate:" + HY.exc_bucket(e)})
        rec.active = True
        self.stack.append(rec)
        self._note_active()

    def op_leave(self, by_exc):
        if not self.stack:
            return
        rec = self.stack.pop()
        n_events = sum(len(g) for g in rec.expected)
        expect_raise = bool(rec.spec.get("reducer")) and n_events == 0
        rec.active = False
        try:
            if by_exc:
                rec.probe.__exit__(F.Boom, F.Boom("leave"), None)
            else:
                rec.probe.__exit__(None, None, None)
        except BaseException as e:
            if not (expect_raise and type(e).__name__ == "SequenceContainsNoElementsError"):
                raise PropertyViolation("deactivate", f"leaving {rec.spec['name']} raised {HY.describe_exc(e)}",
                                        extra={"bucket": "leave:" + HY.exc_bucket(e)})
            self.flags.add("exit-raised")
        if by_exc:
            self.flags.add("exc-exit")
        if self.globals and any(g.id > rec.id for g in self.globals):
            self.flags.add("nonlifo")  # a global activated inside this block outlives it

    def op_gact(self, si):
        if SPECS[si].get("reducer"):
            si = 0
        rec = Rec(len(self.recs), si, "global")
        self.recs.append(rec)
        self._make(rec, True)
        try:
            rec.probe.activate()
        except BaseException as e:
            raise PropertyViolation("activate", f"activating global {rec.spec['name']} raised {HY.describe_exc(e)}",
                                    extra={"bucket": "activate:" + HY.exc_bucket(e)})
        rec.sink = rec.probe.accum()
        rec.active = True
        self.globals.append(rec)
        self._note_active()

    def op_gdeact(self, k):
        if not self.globals:
            return
        k = k % len(self.globals)
        rec = self.globals.pop(k)
        later = [r for r in self.globals[k:]] + [r for r in self.stack if r.id > rec.id]
        if later:
            self.flags.add("nonlifo")
        rec.active = False
        try:
            rec.probe.deactivate()
        except BaseException as e:
            raise PropertyViolation("deactivate", f"deactivating global {rec.spec['name']} raised {HY.describe_exc(e)}",
                                    extra={"bucket": "gdeact:" + HY.exc_bucket(e)})

    # activation / deactivation of a global probe from *inside* an instrumented call
    def _incall(self, roots, k, action):
        """Run `roots` with a callback node inserted into the k-th activation; returns
        (trace, t_cb) after registering `action` as the callback (t_cb None: never reached)."""
        roots = copy.deepcopy(roots)
        nodes = []

        def walk(n):
            nodes.append(n)
            for c in n["pre"] + n["post"]:
                walk(c)

        for r in roots:
            walk(r)
        host = nodes[k % len(nodes)]
        host["pre"].insert(0, {"id": 995, "fn": "cb5", "u0": 9951, "w0": 9955, "ru": None, "rw": None, "pre": [],
                               "post": [], "via": False, "catch": False, "raises": False, "ret": 9959})
        trace = M.simulate(roots)
        t_cb = next((b.t for b in trace.binds if b.act.fn == "cb5"), None)
        return roots, trace, t_cb

    def _drive_incall(self, roots, action):
        err = []

        def cb(node):
            try:
                action()
            except BaseException as e:  # noqa
                err.append(e)
            return node["ret"]

        F.DISPATCH["cb5"] = cb
        try:
            out = F.drive(roots)
        except BaseException as e:
            raise PropertyViolation("call", f"driver raised {HY.describe_exc(e)}", extra={"bucket": "call:" + HY.exc_bucket(e)})
        finally:
            F.DISPATCH.pop("cb5", None)
        if err:
            e = err[0]
            if isinstance(e, PropertyViolation):
                raise e
            raise PropertyViolation("activate", f"(de)activation inside a call raised {HY.describe_exc(e)}",
                                    extra={"bucket": "incall:" + HY.exc_bucket(e)})
        want = []
        for r in roots:
            e = M.escaping(r)
            want.append(("boom", e) if e is not None else ("ret", r["ret"]))
        if out != want:
            raise PropertyViolation("call", f"outcomes {out!r}, expected {want!r}")

    def op_gact_in(self, si, roots, k):
        spec = SPECS[si]
        if spec["mode"] != "imm" or spec.get("reducer"):
            return self.op_gact(si)
        roots2, trace, t_cb = self._incall(roots, k, None)
        if t_cb is None:
            return self.op_call(roots)
        rec = Rec(len(self.recs), si, "global")
        self.recs.append(rec)
        self._make(rec, True)
        for r in self.recs:
            if r.active:
                r.expected.extend(spec_expected(r.spec, trace))
        rec.expected.extend(spec_expected(spec, trace, after=t_cb))

        def action():
            rec.probe.activate()
            rec.sink = rec.probe.accum()
            rec.active = True
            self.globals.append(rec)
            self._note_active()

        self._drive_incall(roots2, action)
        self.flags.add("activated-inside-call")
        if self.max_active >= 2:
            self.flags.add("nontrivial")

    def op_gdeact_in(self, gi, roots, k):
        if not self.globals:
            return self.op_call(roots)
        rec = self.globals[gi % len(self.globals)]
        if rec.spec["mode"] != "imm":
            return self.op_gdeact(gi)
        roots2, trace, t_cb = self._incall(roots, k, None)
        if t_cb is None:
            return self.op_call(roots)
        for r in self.recs:
            if r.active and r is not rec:
                r.expected.extend(spec_expected(r.spec, trace))
        rec.expected.extend(spec_expected(rec.spec, trace, before=t_cb))

        def action():
            self.globals.remove(rec)
            rec.active = False
            rec.probe.deactivate()

        self._drive_incall(roots2, action)
        self.flags.add("deactivated-inside-call")
        if self.max_active >= 2:
            self.flags.add("nontrivial")

    def op_call(self, roots):
        trace = M.simulate(roots)
        for rec in self.recs:
            if rec.active:
                rec.expected.extend(spec_expected(rec.spec, trace))
        expected_out = []
        for r in roots:
            e = M.escaping(r)
            expected_out.append(("boom", e) if e is not None else ("ret", r["ret"]))
        try:
            out = F.drive(copy.deepcopy(roots))
        except BaseException as e:
            raise PropertyViolation("call", f"driver raised {HY.describe_exc(e)}",
                                    extra={"bucket": "call:" + HY.exc_bucket(e)})
        if out != expected_out:
            raise PropertyViolation("call", f"outcomes {out!r}, expected {expected_out!r}")
        if self.flags & {"nonlifo", "exc-exit", "refused", "exit-raised"} and self.max_active >= 2:
            self.flags.add("nontrivial")

    # generator objects that stay suspended across activations / deactivations.  Their own
    # events are don't-care (filtered out by value); what is checked is that starting,
    # resuming, closing or dropping them never disturbs what the *driver's* calls deliver,
    # nor the installed handlers / instrumentation state.
    def _active_ids(self):
        return sorted(r.id for r in self.recs if r.active)

    def op_gen(self, k):
        nid = 5000 + len(self.history)
        node = {"id": nid, "fn": "ga", "u0": nid * 10 + 1, "w0": nid * 10 + 5, "ru": nid * 10 + 2, "rw": None,
                "pre": [], "post": [], "via": False, "catch": False, "raises": False, "ret": nid * 10 + 9}
        g = F.DISPATCH["ga"](node)
        self.gens[k] = g
        self.active_at_gen[k] = self._active_ids()
        self._gstep(k, lambda: next(g))

    def _gstep(self, k, fn):
        try:
            fn()
        except StopIteration:
            self.gens.pop(k, None)
        except BaseException as e:
            raise PropertyViolation("generator", f"driving generator {k} raised {HY.describe_exc(e)}",
                                    extra={"bucket": "gen:" + HY.exc_bucket(e)})
        if k in self.active_at_gen and self.active_at_gen[k] != self._active_ids():
            self.flags.add("gen-across-change")
            if self.max_active >= 1:
                self.flags.add("nontrivial")

    def op_gnext(self, k):
        g = self.gens.get(k)
        if g is not None:
            self._gstep(k, lambda: next(g))

    def op_gclose(self, k):
        g = self.gens.pop(k, None)
        if g is not None:
            self._gstep(k, g.close)

    def op_gdrop(self, k):
        import gc

        if self.gens.pop(k, None) is not None:
            self._gstep(k, lambda: gc.collect(1))

    def op_bad(self, kind):
        from ptera.probe import Probe, OverridableProbe

        texts, kw = BAD[kind]
        p = None
        try:
            cls = OverridableProbe if kw.get("overridable") else Probe
            p = cls(*texts, env=self.env)
            p.__enter__()
        except BaseException as e:
            if not HY.is_deliberate(e):
                raise PropertyViolation("refusal", f"refusing {texts} raised an internal error {HY.describe_exc(e)}")
            self.flags.add("refused")
        else:
            try:
                p.__exit__(None, None, None)
            finally:
                raise PropertyViolation("refusal", f"invalid activation {texts} ({kind}) was accepted")

    def op_fresh(self):
        """At quiescence a fresh probe must behave like the first ever."""
        if self.stack or self.globals:
            return
        from ptera import probing

        roots = [_mini_plan()]
        trace = M.simulate(roots)
        sel = SPECS[1]["sels"][0]
        want = [e for g in M.immediate_events(sel, trace) for e in g]
        with probing(G.canonical(sel), env=self.env).values() as got:
            F.drive(copy.deepcopy(roots))
        if list(got) != want:
            raise PropertyViolation("fresh", f"fresh probe after quiescence got {list(got)!r}, expected {want!r}")

    # -- invariants ---------------------------------------------------------------------
    def _note_active(self):
        self.max_active = max(self.max_active, len(self.stack) + len(self.globals))

    def check(self):
        for rec in self.recs:
            if rec.sink is None:
                continue
            got = _norm(rec)
            i = 0
            for gi, g in enumerate(rec.expected):
                seg = got[i : i + len(g)]
                if M.multiset(seg) != M.multiset(g):
                    state = "active" if rec.active else "deactivated"
                    raise PropertyViolation(
                        "delivery",
                        f"probe #{rec.id} {rec.spec['name']} ({rec.kind}, {state}): group {gi}: expected {g!r}, "
                        f"got {seg!r}; full stream {got!r}",
                    )
                i += len(g)
            if i != len(got):
                state = "active" if rec.active else "deactivated"
                raise PropertyViolation(
                    "delivery",
                    f"probe #{rec.id} {rec.spec['name']} ({rec.kind}, {state}) received {len(got) - i} unexpected "
                    f"event(s): {got[i:]!r}",
                )
            if rec.red is not None and not rec.active:
                flat = [e[rec.spec["reducer"]] for g in rec.expected for e in g]
                want = [min(flat)] if flat else []
                if list(rec.red) != want:
                    raise PropertyViolation("reduction", f"probe #{rec.id} min published {list(rec.red)!r}, expected {want!r}")
        active = [r for r in self.recs if r.active]
        used = set()
        for r in active:
            used |= fns_of(r.spec)
        for name, st in self.states.items():
            if name not in used:
                probs = st.is_clean()
                from ptera import is_tooled

                if is_tooled(st.fn):
                    probs = probs + ["ptera.is_tooled() reports the never-tooled function as tooled"]
                if probs:
                    raise PropertyViolation(
                        "residue", f"no active probe uses {name} but: {probs} (active: {[r.spec['name'] for r in active]})"
                    )
            elif st.fn.__code__ is st.code:
                raise PropertyViolation("not-instrumented", f"{name} is used by an active probe but runs its original code")
        want_ids = sorted(id(h) for r in active for h in r.probe._ol.handlers)
        have_ids = sorted(id(acc) for _, acc in HY.handlers_installed())
        if want_ids != have_ids:
            raise PropertyViolation(
                "handlers",
                f"installed handlers do not match the active probes: {len(have_ids)} installed, {len(want_ids)} expected "
                f"(active: {[r.spec['name'] for r in active]})",
            )
        from ptera import probe as P

        if len(P.global_probes) != len(active):
            raise PropertyViolation("global_probes", f"{len(P.global_probes)} entries in global_probes, {len(active)} active probes")

    def cleanup(self):
        for r in self.recs:
            r.active = False
        for g in list(self.gens.values()):
            try:
                g.close()
            except BaseException:  # noqa
                pass
        self.gens.clear()
        for st in self.states.values():
            if st.is_clean():
                st.force_clean()
        HY.force_global_clean()


def _norm(rec):
    if rec.spec["mode"] == "total":
        return [{k: list(c.values) for k, c in ev.items()} for ev in rec.sink]
    return [ev for ev in rec.sink
            if not any(isinstance(v, int) and v >= GEN_VALUE for v in ev.values())]


def _mini_plan():
    return {"id": 90, "fn": "fa", "u0": 901, "w0": 905, "ru": 902, "rw": None, "pre": [], "post": [],
            "via": False, "catch": False, "raises": False, "ret": 909}


class OverlaySim:
    """Same idea for plain overlays on `tooled` copies: with-blocks of BaseOverlay /
    Overlay.tapping, strictly LIFO, left normally or by exception."""

    def __init__(self):
        from vlib import treegen as T

        self.tf = T.tooled_family()
        F.DISPATCH.update(self.tf)
        self.env = dict(self.tf)
        self.stack = []
        self.recs = []
        self.history = []
        self.flags = set()
        self.max_active = 0
        self.globals = []

    def apply(self, op):
        self.history.append(op)
        getattr(self, "op_" + op[0])(*op[1:])
        self.check()

    def op_ov(self, si, flavour):
        from ptera.interpret import Immediate, Total
        from ptera.overlay import BaseOverlay, Overlay
        from ptera.selector import select

        spec = SPECS[si % 7]
        rec = Rec(len(self.recs), si % 7, "overlay")
        rec.sink = []
        self.recs.append(rec)
        sels = [select(G.canonical(sx), env=self.env) for sx in spec["sels"]]
        if spec["mode"] == "total":
            hs = [Total(sx, (lambda a, rec=rec: rec.sink.append({k: list(c.values) for k, c in a.items()})))
                  for sx in sels]
            rec.cm = BaseOverlay(*hs)
        elif flavour == 0:
            hs = [Immediate(sx, trigger=(lambda a, rec=rec: rec.sink.append({k: c.value for k, c in a.items()})))
                  for sx in sels]
            rec.cm = BaseOverlay(*hs)
        else:
            ol = Overlay()
            for sx in sels:
                ol.tap(sx, dest=rec.sink)
            rec.cm = ol
        rec.cm.__enter__()
        rec.active = True
        self.stack.append(rec)
        self.max_active = max(self.max_active, len(self.stack))

    def op_leave(self, by_exc):
        if not self.stack:
            return
        rec = self.stack.pop()
        rec.active = False
        if by_exc:
            self.flags.add("exc-exit")
            rec.cm.__exit__(F.Boom, F.Boom("leave"), None)
        else:
            rec.cm.__exit__(None, None, None)

    def op_call(self, roots):
        trace = M.simulate(roots)
        for rec in self.recs:
            if rec.active:
                rec.expected.extend(spec_expected(rec.spec, trace))
        F.drive(copy.deepcopy(roots))
        if self.flags & {"exc-exit"} and self.max_active >= 2:
            self.flags.add("nontrivial")

    def check(self):
        for rec in self.recs:
            got = list(rec.sink)
            i = 0
            for gi, g in enumerate(rec.expected):
                seg = got[i : i + len(g)]
                if M.multiset(seg) != M.multiset(g):
                    raise PropertyViolation(
                        "overlay-delivery",
                        f"overlay #{rec.id} {rec.spec['name']} ({'active' if rec.active else 'ended'}): group {gi}: "
                        f"expected {g!r}, got {seg!r}",
                    )
                i += len(g)
            if i != len(got):
                raise PropertyViolation(
                    "overlay-delivery",
                    f"overlay #{rec.id} {rec.spec['name']} ({'active' if rec.active else 'ended'}) received "
                    f"{len(got) - i} unexpected event(s): {got[i:]!r}",
                )
        want = sorted(id(h) for r in self.recs if r.active for h in r.cm.handlers)
        have = sorted(id(acc) for _, acc in HY.handlers_installed())
        if want != have:
            raise PropertyViolation(
                "overlay-handlers", f"{len(have)} handlers installed, {len(want)} expected from the open with-blocks"
            )

    def cleanup(self):
        HY.force_global_clean()
        F.DISPATCH.update(F.RAW)


def run_history(ops):
    if ops and ops[0][0] == "ov" or any(o[0] == "ov" for o in ops):
        sim = OverlaySim()
        try:
            for op in ops:
                sim.apply(_thaw(op))
        finally:
            sim.cleanup()
        return sim
    sim = Sim()
    try:
        for op in ops:
            sim.apply(_thaw(op))
    finally:
        sim.cleanup()
    return sim


def _thaw(op):
    return tuple(op)


def replay(payload):
    try:
        run_history(payload["history"])
    except PropertyViolation as v:
        return [{"clause": v.clause, "detail": v.detail}]
    return []


# ---------------------------------------------------------------------------------------


def make_overlay_machine(rec, steps):
    from hypothesis import strategies as st
    from hypothesis.stateful import RuleBasedStateMachine, rule, precondition
    from vlib import treegen as T
    import time

    plans = T.plan_strategy(max_nodes=6, max_depth=3)

    class OMachine(RuleBasedStateMachine):
        _t0 = None
        _budget = 60.0
        _best = None

        def __init__(self):
            super().__init__()
            self.sim = OverlaySim()
            self.dead = False

        def _do(self, op):
            cls = type(self)
            if self.dead or (cls._t0 is not None and time.monotonic() - cls._t0 > cls._budget):
                return
            try:
                from vlib.core import cpu_guard, CaseHang

                try:
                    with cpu_guard(30.0):
                        self.sim.apply(op)
                except CaseHang as h:
                    raise PropertyViolation("hang", f"operation {op[0]} did not finish: {h}", extra={"bucket": "hang"})
            except PropertyViolation as v:
                self.dead = True
                v.case = list(self.sim.history)
                if cls._t0 is None:
                    cls._t0 = time.monotonic()
                if cls._best is None or len(repr(v.case)) <= len(repr(cls._best.case)):
                    cls._best = v
                raise
            rec.evaluations += 1

        @rule(si=st.integers(0, 6), flavour=st.integers(0, 1))
        def ov(self, si, flavour):
            self._do(("ov", si, flavour))

        @precondition(lambda self: self.sim.stack)
        @rule(by_exc=st.booleans())
        def leave(self, by_exc):
            self._do(("leave", by_exc))

        @rule(roots=plans)
        def call(self, roots):
            self._do(("call", roots))

        def teardown(self):
            sim = self.sim
            if not self.dead:
                feats = set(sim.flags) | {"overlay-machine"}
                rec.case(h64(repr(sim.history)), "nontrivial" in sim.flags, feats,
                         sample=lambda: {"history": [_brief(o) for o in sim.history]})
                rec.evaluations -= 1
            sim.cleanup()

    return OMachine


def make_machine(rec, steps):
    from hypothesis import strategies as st
    from hypothesis.stateful import RuleBasedStateMachine, rule, precondition, initialize
    from vlib import treegen as T
    import time

    plans = T.plan_strategy(max_nodes=6, max_depth=3)

    class Machine(RuleBasedStateMachine):
        _t0 = None
        _budget = 60.0
        _best = None

        def __init__(self):
            super().__init__()
            self.sim = Sim()
            self.dead = False

        def _do(self, op):
            cls = type(self)
            if cls._t0 is not None and time.monotonic() - cls._t0 > cls._budget:
                return
            if self.dead:
                return
            try:
                from vlib.core import cpu_guard, CaseHang

                try:
                    with cpu_guard(30.0):
                        self.sim.apply(op)
                except CaseHang as h:
                    raise PropertyViolation("hang", f"operation {op[0]} did not finish: {h}", extra={"bucket": "hang"})
            except PropertyViolation as v:
                self.dead = True
                hist = list(self.sim.history)
                v.case = hist
                if cls._t0 is None:
                    cls._t0 = time.monotonic()
                if cls._best is None or len(repr(hist)) <= len(repr(cls._best.case)):
                    cls._best = v
                raise
            rec.evaluations += 1

        @rule(si=st.integers(0, len(SPECS) - 1))
        def enter_with(self, si):
            self._do(("with", si))

        @precondition(lambda self: self.sim.stack)
        @rule(by_exc=st.booleans())
        def leave(self, by_exc):
            self._do(("leave", by_exc))

        @rule(si=st.integers(0, len(SPECS) - 1))
        def gact(self, si):
            self._do(("gact", si))

        @rule(k=st.integers(0, 2))
        def gen(self, k):
            self._do(("gen", k))

        @precondition(lambda self: self.sim.gens)
        @rule(k=st.integers(0, 2), how=st.sampled_from(["gnext", "gclose", "gclose", "gdrop"]))
        def gen_step(self, k, how):
            self._do((how, k))

        @precondition(lambda self: self.sim.globals)
        @rule(k=st.integers(0, 5))
        def gdeact(self, k):
            self._do(("gdeact", k))

        @rule(roots=plans)
        def call(self, roots):
            self._do(("call", roots))

        @rule(si=st.integers(0, len(SPECS) - 1), roots=plans, k=st.integers(0, 5))
        def gact_in(self, si, roots, k):
            self._do(("gact_in", si, roots, k))

        @precondition(lambda self: self.sim.globals)
        @rule(gi=st.integers(0, 5), roots=plans, k=st.integers(0, 5))
        def gdeact_in(self, gi, roots, k):
            self._do(("gdeact_in", gi, roots, k))

        @rule(kind=st.sampled_from(sorted(BAD)))
        def bad(self, kind):
            self._do(("bad", kind))

        @precondition(lambda self: not self.sim.stack and not self.sim.globals)
        @rule()
        def fresh(self):
            self._do(("fresh",))

        def teardown(self):
            sim = self.sim
            if not self.dead:
                feats = set(sim.flags)
                feats.add("len:%d" % min(len(sim.history) // 10 * 10, 50))
                rec.case(h64(repr(sim.history)), "nontrivial" in sim.flags, feats,
                         sample=lambda: {"history": [_brief(o) for o in sim.history]})
                rec.evaluations -= 1  # rec.case counted one; operations are counted in _do
            sim.cleanup()

    return Machine


def _brief(op):
    from vlib import treegen as T

    if op[0] == "call":
        return ["call", T.plan_brief(op[1])]
    if op[0] in ("with", "gact"):
        return [op[0], SPECS[op[1]]["name"]]
    if op[0] == "gact_in":
        return ["gact_in", SPECS[op[1]]["name"], T.plan_brief(op[2]), op[3]]
    if op[0] == "gdeact_in":
        return ["gdeact_in", op[1], T.plan_brief(op[2]), op[3]]
    if op[0] == "ov":
        return ["overlay", SPECS[op[1] % 7]["name"], "tap" if op[2] else "base"]
    return list(op)


def plan(tier, seed, scale):
    if tier == "quick":
        return [{"examples": int(150 * scale), "steps": 25, "overlay": i % 4 == 3} for i in range(16)]
    return [{"examples": int(1000 * scale), "steps": 25 if i % 2 else 60, "overlay": i % 4 == 3} for i in range(32)]


def shard(cfg):
    rec = Recorder()
    Machine = (make_overlay_machine if cfg.get("overlay") else make_machine)(rec, cfg["steps"])
    v, herr = hyp_stateful(Machine, seed=cfg["seed"] * 1000 + cfg["shard"], max_examples=cfg["examples"],
                           step_count=cfg["steps"])
    res = rec.result()
    if v is not None:
        res["violations"] = [violation_record(PROPERTY, v, {"history": [list(o) for o in v.case]})]
    if herr:
        res["harness_errors"] = [herr]
    return res
