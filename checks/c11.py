"""C11 - tag selectors capture exactly the bindings that carry the tag.

Domain: generated functions (progen) whose parameters and annotated assignments get a random
choice of tag annotations over {A, B, C}, in string form ('@A & @B', permuted, with
repetitions) and object form (tag.A & tag.B), plus untagged rebindings, variables annotated
more than once and tags used nowhere x selector `$x:@T`, `*:@T`, `v:@T`, `$x`.

Oracle from the reference twin, whose H.bind calls carry the tag set of *that binding site*:
  `$x:@T` / `*:@T` raw stream == exactly the bindings whose own annotation contains T, with the
  real variable name; `v:@T` additionally filters by name; `$x` projected onto the names f
  binds == the complete binding trace; a spy overlay `f > $y` entered inside the probe hears
  only the selected bindings ("only the selected bindings are instrumented"); a tag carried
  by no binding is refused at activation (SelectorError).
A second, small generated scenario checks tags in function position on tooled functions.
"""

import sys

from vlib import hygiene as HY
from vlib import progen as PG
from vlib import prorun as PR
from vlib.core import PropertyViolation, Recorder, hyp_search, violation_record, h64
from checks import c01

PROPERTY = "C11"
RULE = (
    "case = generated function with tag annotations (string and object form, sets in any order / with "
    "repetition) on parameters and annotated assignments, untagged rebindings, re-annotations x input x "
    "selector kind ($x:@T, *:@T, v:@T, $x) x tag T in {A, B, C}; plus function-position tags over three tooled "
    "functions with generated return annotations. Non-trivial = >=1 binding matches the tag, >=1 binding of the "
    "same function does not, and a tag set of size >=2 is present; distinct by (source, input, selector)."
)
ASSUMPTIONS = [
    "an unrestricted generic capture may report externals and #enter/#exit in addition to variable bindings (completeness only)",
]

TAG_ANNS = ['"@A"', '"@B"', '"@C"', '"@A & @B"', '"@B & @A"', '"@A & @A & @B"', '"@B & @C"', "tag.A", "tag.B & tag.A",
            "tag.C & tag.A & tag.C", "int", None,
            # three entries in string form; a named tag set shared between annotations, alone and extended
            '"@A & @B & @C"', '"@C & @A & @B"', '"@B & @C & @B"', "TS_AB", "TS_AB & tag.C", "TS_AB"]


def tagify(draw, fn):
    """Give parameters and annotated assignments tag annotations; turn some plain assignments
    into annotated ones."""
    from hypothesis import strategies as st
    import copy

    fn = copy.deepcopy(fn)
    params = []
    for p in fn["params"]:
        ann = None
        if p[1] in ("pos", "posonly", "kwonly") and draw(st.integers(0, 2)) == 0:
            ann = draw(st.sampled_from(TAG_ANNS))
        params.append((p[0], p[1], p[2], ann))
    fn["params"] = params

    def conv(stmts):
        out = []
        for s in stmts:
            k = s[0]
            if k == "ann" and s[3] is not None:
                a = draw(st.sampled_from(TAG_ANNS)) or "int"
                out.append(("ann", s[1], a, s[3]))
            elif k == "assign" and len(s[1]) == 1 and s[1][0][0] == "n" and draw(st.integers(0, 2)) == 0:
                a = draw(st.sampled_from(TAG_ANNS)) or "int"
                out.append(("ann", s[1][0][1], a, s[2]))
            elif k == "for":
                out.append(("for", s[1], s[2], conv(s[3]), conv(s[4])))
            elif k == "while":
                out.append(("while", s[1], conv(s[2]), conv(s[3])))
            elif k == "if":
                out.append(("if", s[1], conv(s[2]), conv(s[3])))
            elif k == "try":
                out.append(("try", conv(s[1]), [(a, b, conv(c)) for a, b, c in s[2]], conv(s[3]), conv(s[4])))
            elif k == "with":
                out.append(("with", s[1], s[2], s[3], conv(s[4])) + tuple(s[5:]))
            else:
                out.append(s)
        return out

    fn["body"] = conv(fn["body"])
    return fn


def site_tags(fn):
    """All tag sets occurring at binding sites of fn: {name: [tagset, ...]}."""
    out = {}
    for p in fn["params"]:
        if len(p) > 3 and p[3]:
            out.setdefault(p[0], []).append(PG.ann_tags(p[3]))
    for s in PG.walk_stmts(fn["body"]):
        if s[0] == "ann" and s[3] is not None:
            out.setdefault(s[1], []).append(PG.ann_tags(s[2]))
    return out


def check_case(fn, recipe, script, kind, T, vname, rec=None, then=None, delivery="probing", _shared=None):
    """`then`: optional second (kind, T, vname) probed afterwards on the SAME function object."""
    import ptera
    from ptera import probing
    from ptera.interpret import Immediate
    from ptera.overlay import BaseOverlay
    from ptera.selector import SelectorError

    # then = ("with-named", None, v): not a later probe but a companion probe `f > v` (a plain named
    # capture) that is active AT THE SAME TIME as the tagged one, on the same function
    companion = None
    if then is not None and then[0] == "with-named":
        companion, then = then[2], None
    src = PG.render(fn)
    extra = {"tag": ptera.tag, "TS_AB": ptera.tag.A & ptera.tag.B}
    H = PR.Hooks()
    f2, g2 = PR.load(PG.render(fn, twin=True), extra=dict(extra, H=H, TS_AB=ptera.tag.A & ptera.tag.B))
    try:
        with PR.time_limit(3.0):
            PR.run_call(f2, fn, recipe, g2, script)
    except PR.Timeout:
        return
    finally:
        PR.forget(g2)
    binds = [(t[1], r, tg) for t, tg, r in zip([t for t in H.trace if t[0] == "bind"], H.bind_tags, H.bind_reprs)
             if not t[1].startswith("#")]
    st_ = site_tags(fn)
    own = set(PG.bound_names(fn))
    if kind in ("generic-tag", "star-tag"):
        sel = f"f > $x:@{T}" if kind == "generic-tag" else f"f > *:@{T}"
        want = [(n, v) for n, v, tg in binds if T in tg]
        exists = any(T in tg for tgs in st_.values() for tg in tgs)
    elif kind == "generic-tag-ctx":
        # a second generic capture (another tag) in the same selector: variables carrying both
        # tags are matched by both captures; the focus must still fire for every @T binding
        T2 = "B" if T != "B" else "A"
        sel = f"f($y:@{T2}) > $x:@{T}"
        want = [(n, v) for n, v, tg in binds if T in tg]
        exists = any(T in tg for tgs in st_.values() for tg in tgs)
        if not exists or not any(T2 in tg for tgs in st_.values() for tg in tgs):
            return
    elif kind == "named-tag":
        sel = f"f > {vname}:@{T}"
        want = [(n, v) for n, v, tg in binds if T in tg and n == vname]
        exists = any(T in tg for tg in st_.get(vname, []))
    else:
        sel = "f > $x"
        want = [(n, v) for n, v, tg in binds]
        exists = True
    ctxt = f"selector {sel!r} input {recipe!r} script {script!r}\n{src}"
    if _shared is not None:
        f, glb = _shared
    else:
        f, glb = PR.load(src, extra=extra)
    got, spy = [], []

    def on(ev):
        for key, cap in ev.items():
            if kind == "generic-tag-ctx" and key != "x":
                continue
            got.append((cap.name, PR.nrepr(cap.value)))

    refused = None
    try:
        if delivery == "overlay" and exists:
            # everything instrumented (tooled copy): the category check happens at run time only
            with PR.time_limit(3.0):
                g = ptera.tooled(f)
                osel = ptera.select(sel, env={"f": g})
                with BaseOverlay(Immediate(osel, trigger=on)):
                    PR.run_call(g, fn, recipe, glb, script)
            spy = None
        else:
          with PR.time_limit(3.0):
            comp_got = []
            if companion is not None:
                cp = probing(f"f > {companion}", env={"f": f})
                cp.subscribe(lambda d: comp_got.append(PR.nrepr(d[companion])))  # rendered at event time
                cp.__enter__()
            try:
                p = probing(sel, env={"f": f}, raw=True)
                p.subscribe(on)
                try:
                    p.__enter__()
                except BaseException as e:
                    refused = e
                else:
                    try:
                        spysel = ptera.select("f > $y", env={"f": f})
                        with BaseOverlay(Immediate(spysel, trigger=lambda a: spy.extend(
                                (c.name, PR.nrepr(c.value)) for c in a.values()))):
                            PR.run_call(f, fn, recipe, glb, script)
                    finally:
                        p.__exit__(None, None, None)
            finally:
                if companion is not None:
                    cp.__exit__(None, None, None)
            if companion is not None and refused is None:
                spy = None  # the companion's variable is instrumented too
    except PR.Timeout:
        HY.force_global_clean()
        raise PropertyViolation("hang", f"probed run did not finish within 3 s of CPU time\n{ctxt}")
    except BaseException as e:
        if isinstance(e, (KeyboardInterrupt, SystemExit)):
            raise
        HY.force_global_clean()
        raise PropertyViolation("run", f"raised {HY.describe_exc(e)}\n{ctxt}", extra={"bucket": "run:" + HY.exc_bucket(e)})
    finally:
        if HY.global_state_problems():
            HY.force_global_clean()
        if then is None:
            PR.forget(glb)
    if companion is not None and refused is None and not (delivery == "overlay" and exists):
        cw = [v for n, v, tg in binds if n == companion]
        if comp_got != cw:
            raise PropertyViolation(
                "companion", f"while {sel!r} was active, the plain probe f > {companion} on the same function "
                             f"received {comp_got}, expected {cw}\n{ctxt}", extra={"bucket": "companion"})
    if not exists:
        # a tag carried by no binding (of that variable): must be refused, not silently accepted
        if refused is None:
            raise PropertyViolation("accepted-unused-tag", f"no binding carries @{T} but activation succeeded\n{ctxt}")
        if not isinstance(refused, SelectorError):
            raise PropertyViolation("wrong-refusal", f"refused with {HY.describe_exc(refused)}, expected SelectorError\n{ctxt}")
    else:
        if refused is not None:
            raise PropertyViolation("refused", f"a binding carries the tag but activation was refused: "
                                               f"{HY.describe_exc(refused)}\n{ctxt}", extra={"bucket": "refused:" + kind})
        if kind == "generic":
            got_own = [(n, v) for n, v in got if n in own]
            if got_own != want:
                raise PropertyViolation("completeness", f"$x saw {got_own}, the binding trace is {want}\n{ctxt}")
        else:
            if got != want:
                raise PropertyViolation(
                    "tag-stream", f"{sel} captured {got}, the bindings carrying the tag are {want}\n"
                                  f"all bindings {[(n, v, tg) for n, v, tg in binds]}\n{ctxt}",
                    extra={"bucket": "tag-stream:" + ("missing" if len(got) < len(want) else "extra" if len(got) > len(want) else "value")})
            if kind == "generic-tag-ctx":
                spy = None  # the bindings carrying the second tag are instrumented as well
            spy_own = want if spy is None else [(n, v) for n, v in spy if not n.startswith("#")]
            if spy_own != want:
                raise PropertyViolation(
                    "selective-instrumentation",
                    f"a spy overlay inside the probe heard {spy_own}; only the selected bindings {want} should be instrumented\n{ctxt}")
    if then is not None:
        check_case(fn, recipe, script, then[0], then[1], then[2], rec=None, then=None, delivery="probing",
                   _shared=(f, glb))
    if rec is not None:
        sizes = [len(tg) for tgs in st_.values() for tg in tgs]
        matched = len(want) if exists and kind != "generic" else 0
        nonmatch = len(binds) - matched
        nt = kind != "generic" and matched >= 1 and nonmatch >= 1 and any(s >= 2 for s in sizes)
        feats = {"kind:" + kind, "exists" if exists else "unused-tag", "delivery:" + delivery}
        if then is not None:
            feats.add("second-probe-on-same-function")
        if companion is not None:
            feats.add("named-probe-active-at-the-same-time")
        if any(len(tgs) >= 2 for tgs in st_.values()):
            feats.add("re-annotated")
        if any("tag." in (p[3] or "") for p in fn["params"]) or any(
                s[0] == "ann" and "tag." in s[2] for s in PG.walk_stmts(fn["body"])):
            feats.add("object-form")
        rec.case(h64(repr((src, recipe, script, sel))), nt, feats,
                 sample=lambda: {"source": src, "input": recipe, "selector": sel, "captured": want[:6]})


# ---- function-position tags -------------------------------------------------------------

FPOS_SRC = '''
def h1(v){r1}:
    w = v + 1
    return w


def _mk():
    k = 2

    def h2(v){r2}:
        w = v + k
        return w

    return h2


h2 = _mk()


def h3(v, *, d=3){r3}:
    """doc"""
    w = v + d
    return w
'''


def check_fpos(rets, T, named, rec=None):
    import ptera
    from ptera.interpret import Immediate
    from ptera.overlay import BaseOverlay

    src = FPOS_SRC.format(**{f"r{i+1}": (f" -> {r}" if r else "") for i, r in enumerate(rets)})
    _, glb = PR.load(src, name="h1", extra={"tag": ptera.tag})
    try:
        tooled = {n: ptera.tooled(glb[n]) for n in ("h1", "h2", "h3")}
        fnsel = f"{named}:@{T}" if named else f"*:@{T}"
        sel = ptera.select(f"{fnsel} > w", env=dict(tooled))
        got = []
        with BaseOverlay(Immediate(sel, trigger=lambda a: got.append(a["w"].value))):
            for i, n in enumerate(("h1", "h2", "h3")):
                tooled[n](10 * (i + 1))
    except BaseException as e:
        if isinstance(e, (KeyboardInterrupt, SystemExit)):
            raise
        raise PropertyViolation("fpos-run", f"function-position selector raised {HY.describe_exc(e)}\n{src}")
    finally:
        PR.forget(glb)
    want = []
    for i, (n, r) in enumerate(zip(("h1", "h2", "h3"), rets)):
        if T in PG.ann_tags(r) and (named is None or named == n):
            want.append(10 * (i + 1) + i + 1)
    if got != want:
        raise PropertyViolation("function-tag", f"{fnsel} > w with return annotations {rets}: got {got}, expected {want}")
    if rec is not None:
        rec.case(h64(repr((rets, T, named))), bool(want) and len(want) < 3, {"kind:function-position"},
                 sample={"returns": rets, "selector": f"{fnsel} > w", "captured": want})


def replay(payload):
    try:
        if payload.get("mode") == "fpos":
            check_fpos(payload["rets"], payload["T"], payload["named"])
        else:
            fn = payload["fn"]
            fn["params"] = [tuple(p) for p in fn["params"]]
            fn["body"] = c01._tuplify(fn["body"])
            fn["closure"] = [tuple(c) for c in fn.get("closure") or []]
            recipe = {k: (v[0], v[1]) for k, v in payload["recipe"].items()}
            check_case(fn, recipe, [tuple(s) for s in payload["script"]], payload["kind"], payload["T"], payload["vname"],
                       then=tuple(payload["then"]) if payload.get("then") else None,
                       delivery=payload.get("delivery", "probing"))
    except PropertyViolation as v:
        return [{"clause": v.clause, "detail": v.detail}]
    return []


def strategy():
    from hypothesis import strategies as st

    fns = PG.functions(PG.Flags(max_stmts=8))
    scripts = PR.scripts()
    # function-position tags: only the object form is documented for return annotations
    rets = st.sampled_from(["tag.A", "tag.B & tag.A", "tag.B", "tag.A & tag.C", None, "int", "tag.C"])

    @st.composite
    def cases(draw):
        if draw(st.integers(0, 9)) == 0:
            return ("fpos", [draw(rets) for _ in range(3)], draw(st.sampled_from("ABC")),
                    draw(st.sampled_from([None, None, "h1", "h2", "h3"])))
        fn = tagify(draw, draw(fns))
        recipe = PG.draw_inputs(draw, fn)
        script = draw(scripts) if fn["gen"] else []
        kind = draw(st.sampled_from(["generic-tag", "generic-tag", "star-tag", "named-tag", "named-tag", "generic",
                                     "generic-tag-ctx"]))
        T = draw(st.sampled_from("ABC"))
        st_ = site_tags(fn)
        names = sorted(st_) or sorted(PG.bound_names(fn))
        vname = names[draw(st.integers(0, len(names) - 1))]
        then = None
        if draw(st.integers(0, 2)) == 0:
            then = (draw(st.sampled_from(["generic-tag", "named-tag", "generic", "star-tag"])),
                    draw(st.sampled_from("ABC")), names[draw(st.integers(0, len(names) - 1))])
        elif draw(st.integers(0, 1)) == 0:
            decl = PG.declared_scope_names(fn)
            plain = sorted(n for n in PG.bound_names(fn) if n not in decl and not n.startswith("g_"))
            if plain:
                then = ("with-named", None, plain[draw(st.integers(0, len(plain) - 1))])
        delivery = draw(st.sampled_from(["probing", "probing", "overlay"]))
        return ("case", fn, recipe, script, kind, T, vname, then, delivery)

    return cases()


def plan(tier, seed, scale):
    if tier == "quick":
        return [{"examples": int(700 * scale)} for _ in range(16)]
    return [{"examples": int(10000 * scale)} for _ in range(32)]


def shard(cfg):
    sys.unraisablehook = lambda *a, **k: None
    rec = Recorder()

    def body(case):
        if case[0] == "fpos":
            check_fpos(case[1], case[2], case[3], rec)
        else:
            check_case(*case[1:7], rec=rec, then=case[7], delivery=case[8])

    n, v, herr = hyp_search(strategy(), body, seed=cfg["seed"] * 1000 + cfg["shard"], max_examples=cfg["examples"])
    res = rec.result()
    if v is not None:
        c = v.case
        if c[0] == "fpos":
            pl = {"mode": "fpos", "rets": c[1], "T": c[2], "named": c[3]}
        else:
            pl = {"mode": "case", "fn": c[1], "recipe": c[2], "script": c[3], "kind": c[4], "T": c[5], "vname": c[6],
                  "then": list(c[7]) if c[7] else None, "delivery": c[8], "source": PG.render(c[1])}
        res["violations"] = [violation_record(PROPERTY, v, pl)]
    if herr:
        res["harness_errors"] = [herr]
    return res
