"""C12 - value conditions in selectors filter events exactly by the stated predicate.

(a) exhaustive integer box for every/between/lt/gt/lte/gte against the arithmetic
    definitions in the property text;
(b) end to end: generated loop inputs x constrained selectors over vlib.family_loops;
    expected stream = the reference trace's unconstrained events filtered by the reference
    predicates on the captures present at that moment; overrides applied iff the same
    condition holds (reference interpreter with substitution).
"""

import itertools

from vlib import family_loops as FL
from vlib import hygiene as HY
from vlib import model_paths as M
from vlib import selgen as G
from vlib.core import PropertyViolation, Recorder, hyp_search, violation_record, h64

PROPERTY = "C12"
RULE = (
    "(a) every integer argument combination of every(n,start,end), between(a,b[,modulo]), lt/gt/lte/gte(k) in "
    "[-6,6] (thorough [-9,9]; None where the signature defaults to None; n != 0) x v in [-20,20] (thorough "
    "[-30,30]), and throttle(1..3) asked every sequence of <= 4 values of [-1,4] against a current/trigger reference - exhaustive; (b) Hypothesis: inputs of lo/li x selectors with 1-3 constraints (=literal, =env "
    "name, ~predicate) on focus and context variables at both stack levels, delivered to a plain probe and to "
    "an overriding probe, in every other case after an unconditional probe on the focus was activated first and "
    "deactivated first; plus selectors using one capture name at two call levels with the condition on "
    "the outer one. A (b) case is non-trivial when the filter both passes and rejects >=1 candidate "
    "event and a boundary value (v=start, v=end, v=k) occurs among the tested values; (a) evaluations are "
    "counted but only (b) cases enter distinct_nontrivial."
)
ASSUMPTIONS = [
    "throttle has no stated arithmetic meaning: it is checked end-to-end against a reference of the current/trigger state the property's anchor names (accept the first value, then a value again while it is the accepted one, another one once it reaches the boundary, which advances by one period)",
    "modulo = 0 and non-integer arguments are outside the documented domain",
]

# ---------------------------------------------------------------------------------------
# reference predicates


def ref_range(v, start, end, modulo):
    if start is not None and v < start:
        return False
    if end is not None and v >= end:
        return False
    if modulo is not None:
        return (v - (start or 0)) % abs(modulo) == 0
    return True


class RefThrottle:
    """Reference for the stateful rate predicate (the `current` / `trigger` state named by the
    property's anchor): the first value is accepted and sets the next boundary one period
    further; a value is accepted again for as long as the variable still holds the accepted
    value (a condition is about the value a variable holds, however many events ask about it);
    another value is accepted once it reaches the boundary, which then moves one period on."""

    def __init__(self, period):
        self.period = period
        self.accepted = None
        self.boundary = None

    def __call__(self, v):
        if self.accepted is None:
            self.accepted, self.boundary = v, v + self.period
            return True
        if v == self.accepted:
            return True
        if v >= self.boundary:
            self.accepted, self.boundary = v, self.boundary + self.period
            return True
        return False


def box_check(kind, args, vs):
    """Compare ptera.tools against the arithmetic definition; returns (n, first mismatch)."""
    from ptera import tools

    if kind == "throttle":
        # `vs` is ignored: the argument is (period, sequence of values asked in that order)
        period, seq = args
        pred, ref = tools.throttle(period), RefThrottle(period)
        for i, v in enumerate(seq):
            try:
                got = bool(pred(v))
            except BaseException as e:
                return v, f"asked #{i} raised {type(e).__name__}: {e}"
            want = ref(v)
            if got != want:
                return v, f"asked #{i} of {list(seq)} returned {got}, the current/trigger reference says {want}"
        return None, None
    if kind == "every":
        n, start, end = args
        pred = tools.every(n, start, end)
        ref = lambda v: ref_range(v, start, end, n)  # noqa
    elif kind == "between":
        a, b, mod = args
        pred = tools.between(a, b, mod) if mod is not None else tools.between(a, b)
        ref = lambda v: ref_range(v, a, b, mod)  # noqa
    else:
        (k,) = args
        pred = getattr(tools, kind)(k)
        ref = {"lt": lambda v: v < k, "gt": lambda v: v > k, "lte": lambda v: v <= k, "gte": lambda v: v >= k}[kind]
    for v in vs:
        try:
            got = bool(pred(v))
        except BaseException as e:
            return v, f"raised {type(e).__name__}: {e}"
        if got != ref(v):
            return v, f"returned {got}, arithmetic definition says {ref(v)}"
    return None, None


def box_cases(lo_, hi):
    ints = list(range(lo_, hi + 1))
    nz = [i for i in ints if i != 0]
    for n in nz + [None]:
        for s in ints:
            for e in ints + [None]:
                yield "every", (n, s, e)
    for a in ints:
        for b in ints:
            for m in nz + [None]:
                yield "between", (a, b, m)
    for kind in ("lt", "gt", "lte", "gte"):
        for k in ints:
            yield kind, (k,)
    # the stateful predicate: every non-decreasing-or-not sequence of up to 4 questions over a
    # small range (repeated questions about one value included)
    for period in (1, 2, 3):
        for n in (1, 2, 3, 4):
            for seq in itertools.product(range(-1, 5), repeat=n):
                yield "throttle", (period, seq)


# ---------------------------------------------------------------------------------------
# end to end

OUTER = ["x", "m", "acc", "r"]
INNER = ["p", "y", "q", "tot"]
CONSTS = {"K3": 3, "KM1": -1, "K0": 0}


def _env():
    from ptera import tools

    e = {"lo": FL.lo, "li": FL.li}
    e.update(CONSTS)
    for k in ("every", "between", "lt", "gt", "lte", "gte", "throttle"):
        e[k] = getattr(tools, k)
    return e


def _lit(v):
    return int(v[1]) if v[1].lstrip("-").isdigit() else CONSTS[v[1]]


def ref_condition(cap_):
    """Reference predicate for one constrained capture (value IR -> python function)."""
    v = cap_.value
    if cap_.vop == "=":
        k = _lit(v)
        return (lambda x: x == k), [k]
    name = v[1]
    pos = [a for a in v[2] if a[0] != "kw"]
    kw = {a[1]: _lit(a[2]) for a in v[2] if a[0] == "kw"}
    pos = [_lit(a) for a in pos]
    if name == "every":
        names = ["modulo", "start", "end"]
        d = {"modulo": None, "start": 0, "end": None}
        d.update(dict(zip(names, pos)))
        d.update(kw)
        return (lambda x: ref_range(x, d["start"], d["end"], d["modulo"])), [d["start"], d["end"]]
    if name == "between":
        names = ["start", "end", "modulo"]
        d = {"modulo": None}
        d.update(dict(zip(names, pos)))
        d.update(kw)
        return (lambda x: ref_range(x, d["start"], d["end"], d["modulo"])), [d["start"], d["end"]]
    k = pos[0]
    return {
        "lt": lambda x: x < k,
        "gt": lambda x: x > k,
        "lte": lambda x: x <= k,
        "gte": lambda x: x >= k,
    }[name], [k]


def strip_values(sel):
    return G.CallN(
        sel.fn, sel.fntag,
        tuple(c._replace(value=None, vop="=") for c in sel.caps),
        tuple(strip_values(ch) for ch in sel.children),
    )


def constrained_caps(sel):
    for _, n in M.all_nodes(sel):
        for c in n.caps:
            if c.value is not None:
                yield c


def satisfies(sel, ev, stats=None):
    for c in constrained_caps(sel):
        key = c.alias if c.alias is not None else c.name
        if key in ev:
            pred, bounds = ref_condition(c)
            if stats is not None and ev[key] in bounds:
                stats["boundary"] = True
            if not pred(ev[key]):
                return False
    return True


def ref_run(sel0, sel, xs, ys, p0, policy=None, extra=()):
    """`extra`: further (unconstrained selector, constrained selector, policy) override handlers
    activated after the first one (most recently activated non-declining override wins)."""
    """Reference interpreter of the driver `lo(xs, ys); li(p0, ys)` producing the binding
    trace; when `policy` is given, a binding of the focus variable whose event satisfies
    the selector's conditions stores policy(event) instead."""
    tr = M.Trace()
    ids = itertools.count()

    def bind(act, var, value):
        tr.binds.append(M.Bind(tr.tick(), act, var, value))
        if policy is not None:
            tentative = value
            idx = len(tr.binds) - 1
            for s0, s1, pol in [(sel0, sel, policy)] + list(extra):
                tr.binds[idx] = tr.binds[idx]._replace(value=tentative)
                for ev in M.events_at(s0, tr, idx):
                    if satisfies(s1, ev):
                        value = pol(ev)
            tr.binds[idx] = tr.binds[idx]._replace(value=value)
        return value

    def li(p, ys_, parent):
        B = M.Act(next(ids), "li", parent, None)
        tr.acts.append(B)
        p = bind(B, "p", p)
        bind(B, "ys", ys_)
        tot = bind(B, "tot", 0)
        for y in ys_:
            y = bind(B, "y", y)
            q = bind(B, "q", p + y)
            tot = bind(B, "tot", tot + q)
        tot = bind(B, "#value", tot)
        tr.exits.append((tr.tick(), B, "return", tot))
        return tot

    def lo(xs_, ys_):
        A = M.Act(next(ids), "lo", None, None)
        tr.acts.append(A)
        bind(A, "xs", xs_)
        bind(A, "ys", ys_)
        acc = bind(A, "acc", 0)
        for x in xs_:
            x = bind(A, "x", x)
            m = bind(A, "m", x * 2)
            r = bind(A, "r", li(x, ys_, A))
            acc = bind(A, "acc", acc + r)
        res = bind(A, "#value", acc)
        tr.exits.append((tr.tick(), A, "return", res))
        return res

    r1 = lo(xs, ys)
    r2 = li(p0, ys, None)
    return tr, (r1, r2)


_STATES = None


def _cleanup():
    global _STATES
    if _STATES is None:
        _STATES = [HY.FnState(FL.lo), HY.FnState(FL.li)]
    for s in _STATES:
        if s.is_clean():
            s.force_clean()
    if HY.global_state_problems():
        HY.force_global_clean()


def unfocus(sel):
    return G.CallN(sel.fn, sel.fntag, tuple(c._replace(focus=0) for c in sel.caps),
                   tuple(unfocus(ch) for ch in sel.children))


def _dup_keys(sel):
    for _, n in M.all_nodes(sel):
        keys = [c.alias or c.name for c in n.caps]
        if len(keys) != len(set(keys)):
            return True
    return False


def check_total(sel, xs, ys, p0, rec=None):
    if _dup_keys(sel):
        # whether a total record lists a value once or once per mention of the variable is not
        # stated: duplicate mentions are only checked for focused (immediate) selectors
        if rec is not None:
            rec.count("total-mode-skipped-duplicate-mention")
        return
    """Focus-free variant: a total record is delivered iff every value of every constrained
    capture satisfies its condition."""
    from ptera import probing

    env = _env()
    selt = unfocus(sel)
    if any(c.vop == "~" and c.value[1] == "throttle" for c in constrained_caps(selt)):
        return
    text = G.canonical(selt)
    sel0 = strip_values(selt)
    tr, (r1, r2) = ref_run(strip_values(sel), sel, xs, ys, p0)
    cand = M.total_records(sel0, tr)

    def ok(rec_):
        for c in constrained_caps(selt):
            key = c.alias if c.alias is not None else c.name
            if key in rec_:
                pred, _ = ref_condition(c)
                if not all(pred(v) for v in rec_[key]):
                    return False
        return True

    expected = [r for r in cand if ok(r)]
    try:
        with probing(text, env=env, raw=True).values() as got:
            FL.lo(list(xs), list(ys))
            FL.li(p0, list(ys))
    except BaseException as e:
        _cleanup()
        raise PropertyViolation("run", f"probing({text!r}) raised {HY.describe_exc(e)}",
                                extra={"bucket": "run-total:" + HY.exc_bucket(e)})
    finally:
        _cleanup()
    got = [{k: list(c.values) for k, c in ev.items()} for ev in got]
    if got != expected:
        raise PropertyViolation(
            "total-filter", f"probing({text!r}) on xs={xs} ys={ys} p0={p0}: expected records {expected!r}, got {got!r}")
    if rec is not None:
        nt = bool(expected) and len(expected) < len(cand)
        rec.case(h64(repr((selt, xs, ys, p0, "total"))), nt, {"total-mode"},
                 sample=lambda: {"selector": text, "xs": xs, "ys": ys, "p0": p0, "records": expected[:3]})


def check_dup(sel, xs, ys, p0, rec=None):
    """`lo(<v> as d ~cond) > li(<v'> as d, !q)`: the same capture name at two call levels, the
    condition standing on the OUTER call's variable.  The model selector keeps the two apart
    (aliases D0 / D1); the condition must be decided by the outer variable's value.  What the
    event reports under the shared name is not compared."""
    from ptera import probing

    env = _env()
    text = G.canonical(sel).replace("D0", "d").replace("D1", "d")
    sel0 = strip_values(sel)
    tr, (r1, r2) = ref_run(sel0, sel, xs, ys, p0)
    cand = [ev for g in M.immediate_events(sel0, tr) for ev in g]
    stats = {}
    expected = [{k: v for k, v in ev.items() if k not in ("D0", "D1")} for ev in cand if satisfies(sel, ev, stats)]
    try:
        with probing(text, env=env).values() as got:
            FL.lo(list(xs), list(ys))
            FL.li(p0, list(ys))
    except BaseException as e:
        _cleanup()
        raise PropertyViolation("run", f"probing({text!r}) raised {HY.describe_exc(e)}",
                                extra={"bucket": "run:" + HY.exc_bucket(e)})
    finally:
        _cleanup()
    got = [{k: v for k, v in ev.items() if k != "d"} for ev in got]
    if got != expected:
        raise PropertyViolation(
            "filter",
            f"probing({text!r}) on xs={xs} ys={ys} p0={p0} (the condition is on lo's variable): expected "
            f"{expected!r}, got {got!r}",
        )
    if rec is not None:
        passes, rejects = len(expected), len(cand) - len(expected)
        feats = {"same-name-two-levels"} | ({"passes"} if passes else set()) | ({"rejects"} if rejects else set())
        differ = any(ev.get("D0") != ev.get("D1") for ev in cand)
        rec.case(h64(repr((sel, xs, ys, p0, "dup"))), passes > 0 and rejects > 0 and differ, feats,
                 sample=lambda: {"selector": text, "xs": xs, "ys": ys, "p0": p0, "delivered": expected[:5],
                                 "candidates": len(cand)})


def check_e2e(sel, xs, ys, p0, ov_kind, rec=None):
    from ptera import probing

    if ov_kind == "total":
        return check_total(sel, xs, ys, p0, rec)
    if ov_kind == "dup":
        return check_dup(sel, xs, ys, p0, rec)
    env = _env()
    text = G.canonical(sel)
    sel0 = strip_values(sel)
    text0 = G.canonical(sel0)
    fcap = G.focus_cap(sel)
    fkey = fcap.alias if fcap.alias is not None else fcap.name
    throttled = [c for c in constrained_caps(sel) if c.vop == "~" and c.value[1] == "throttle"]

    # ---- plain filter
    tr, (r1, r2) = ref_run(sel0, sel, xs, ys, p0)
    cand = [ev for g in M.immediate_events(sel0, tr) for ev in g]
    stats = {}
    if throttled:
        from ptera import tools

        c = throttled[0]
        key = c.alias if c.alias is not None else c.name
        th = RefThrottle(_lit(c.value[2][0]))
        expected = [ev for ev in cand if (key not in ev or th(ev[key]))]
    else:
        expected = [ev for ev in cand if satisfies(sel, ev, stats)]
    # every other case: an unconditional probe on the same focus variable is activated first and
    # deactivated first (non-LIFO), so that the conditional probe is alone when the calls happen
    fifo = (len(xs) + len(ys) + p0) % 2 == 1
    try:
        if fifo:
            comp = probing(f"{M.focus_path(sel)[-1].fn} > {fcap.name}", env=env)
            comp.__enter__()
            main = probing(text, env=env)
            got = main.accum()
            main.__enter__()
            try:
                comp.__exit__(None, None, None)
                a1 = FL.lo(list(xs), list(ys))
                a2 = FL.li(p0, list(ys))
            finally:
                main.__exit__(None, None, None)
        else:
            with probing(text, env=env).values() as got:
                a1 = FL.lo(list(xs), list(ys))
                a2 = FL.li(p0, list(ys))
    except BaseException as e:
        _cleanup()
        raise PropertyViolation("run", f"probing({text!r}) raised {HY.describe_exc(e)}",
                                extra={"bucket": "run:" + HY.exc_bucket(e)})
    finally:
        _cleanup()
    if (a1, a2) != (r1, r2):
        raise PropertyViolation("result", f"probing({text!r}) changed results: {(a1, a2)} vs {(r1, r2)}")
    if list(got) != expected:
        raise PropertyViolation(
            "filter",
            f"probing({text!r}) on xs={xs} ys={ys} p0={p0}{' (after an unconditional probe on the focus was activated first and deactivated first)' if fifo else ''}: expected {expected!r}, got {list(got)!r}",
        )

    # ---- override under the same condition
    if not throttled and ov_kind is not None:
        if ov_kind == "const":
            policy = lambda ev: 50  # noqa
        else:
            policy = lambda ev: ev[fkey] + 100  # noqa
        # optionally a second, later-activated conditional override on the same variable
        extra = []
        second = None
        if ov_kind == "fn":
            lastcall = M.focus_path(sel)[-1]
            k2 = 1 + (len(xs) % 3)
            sel_b = G.CallN(lastcall.fn, None, (G.Cap(fcap.name, None, None, ("call", "lt", (("sym", str(k2)),)), "~", 1),), ())
            pol_b = lambda ev: 70  # noqa
            extra = [(strip_values(sel_b), sel_b, pol_b)]
            second = (G.canonical(sel_b), pol_b)
        tr2, (o1, o2) = ref_run(sel0, sel, xs, ys, p0, policy, extra)
        seen = [ev for g in M.immediate_events(sel0, tr2) for ev in g]
        try:
            from contextlib import ExitStack

            with probing(text0, env=env).values() as plain, ExitStack() as stack:
                op = probing(text, env=env, overridable=True)
                op.override(policy)
                stack.enter_context(op)
                if second is not None:
                    op2 = probing(second[0], env=env, overridable=True)
                    op2.override(second[1])
                    stack.enter_context(op2)
                if True:
                    b1 = FL.lo(list(xs), list(ys))
                    b2 = FL.li(p0, list(ys))
        except BaseException as e:
            _cleanup()
            raise PropertyViolation("run", f"overriding probe {text!r} raised {HY.describe_exc(e)}",
                                    extra={"bucket": "run-ov:" + HY.exc_bucket(e)})
        finally:
            _cleanup()
        if (b1, b2) != (o1, o2):
            raise PropertyViolation(
                "override",
                f"override on {text!r} xs={xs} ys={ys} p0={p0}: results {(b1, b2)}, substituted reference {(o1, o2)}",
            )
        if list(plain) != seen:
            raise PropertyViolation(
                "override-stream",
                f"plain probe {text0!r} beside overriding {text!r}: expected {seen!r}, got {list(plain)!r}",
            )
    if rec is not None:
        feats = {"throttle" if throttled else "arith"}
        feats.add(f"constraints:{len(list(constrained_caps(sel)))}")
        feats.add("levels:%d" % len(M.focus_path(sel)))
        if fcap.value is not None:
            feats.add("focus-constrained")
        passes = len(expected)
        rejects = len(cand) - len(expected)
        if passes:
            feats.add("passes")
        if rejects:
            feats.add("rejects")
        if stats.get("boundary"):
            feats.add("boundary")
        nt = passes > 0 and rejects > 0 and (stats.get("boundary") or bool(throttled))
        rec.case(h64(repr((sel, xs, ys, p0, ov_kind))), nt, feats,
                 sample=lambda: {"selector": text, "xs": xs, "ys": ys, "p0": p0, "override": ov_kind,
                                 "delivered": expected[:5], "candidates": len(cand)})


def e2e_strategy():
    from hypothesis import strategies as st

    small = st.one_of(st.integers(-3, 6), st.integers(-3, 6), st.integers(-3, 6), st.sampled_from([300, 1000]))

    def lit():
        return st.one_of(small.map(lambda i: ("sym", str(i))), st.sampled_from(list(CONSTS)).map(lambda n: ("sym", n)))

    @st.composite
    def constraint(draw):
        kind = draw(st.sampled_from(["=", "every", "between", "lt", "gt", "lte", "gte", "every", "between"]))
        if kind == "=":
            return "=", draw(lit())
        if kind == "every":
            n = draw(st.integers(-3, 4).filter(lambda i: i != 0))
            args = [("sym", str(n))]
            form = draw(st.integers(0, 3))
            if form == 1:
                args.append(draw(lit()))
            elif form == 2:
                args.append(("kw", "start", draw(lit())))
                if draw(st.booleans()):
                    args.append(("kw", "end", draw(lit())))
            elif form == 3:
                args.append(("kw", "end", draw(lit())))
            return "~", ("call", "every", tuple(args))
        if kind == "between":
            args = [draw(lit()), draw(lit())]
            if draw(st.integers(0, 2)) == 0:
                args.append(("sym", str(draw(st.integers(-3, 3).filter(lambda i: i != 0)))))
            return "~", ("call", "between", tuple(args))
        return "~", ("call", kind, (draw(lit()),))

    @st.composite
    def caps_for(draw, pool, n_con_left, focus_var=None):
        names = draw(st.lists(st.sampled_from(pool), unique=True, max_size=3))
        if focus_var in names:
            names.remove(focus_var)
        out = []
        for nme in names:
            value, vop = None, "="
            if draw(st.booleans()):
                vop, value = draw(constraint())
            out.append(G.Cap(nme, None, None, value, vop, 0))
        return out

    @st.composite
    def sel(draw):
        shape = draw(st.sampled_from(["inner", "chain", "chain", "outer", "outer-sib"]))
        if shape in ("inner", "chain"):
            fv = draw(st.sampled_from(["q", "tot", "y", "p", "q"]))
            level_pool = INNER
        else:
            fv = draw(st.sampled_from(["m", "acc", "r", "x"]))
            level_pool = OUTER
        fval, fvop = None, "="
        if draw(st.integers(0, 2)) == 0:
            fvop, fval = draw(constraint())
        fc = G.Cap(fv, None, None, fval, fvop, 1)
        own = draw(caps_for(level_pool, 3, fv))
        if draw(st.integers(0, 3)) == 0:
            # the focus variable is mentioned a second time in the same call, with a condition of
            # its own: both conditions must hold
            vop, val = draw(constraint())
            own.append(G.Cap(fv, None, None, val, vop, 0))
        elif own and draw(st.integers(0, 3)) == 0:
            # a context variable constrained twice
            vop, val = draw(constraint())
            own.append(G.Cap(own[0].name, None, None, val, vop, 0))
        own.insert(draw(st.integers(0, len(own))), fc)
        if shape == "inner":
            s = G.CallN("li", None, tuple(own), ())
        elif shape == "chain":
            outer = draw(caps_for(OUTER, 3))
            s = G.CallN("lo", None, tuple(outer), (G.CallN("li", None, tuple(own), ()),))
        elif shape == "outer":
            s = G.CallN("lo", None, tuple(own), ())
        else:
            sib = draw(caps_for(INNER, 3))
            if not sib:
                sib = [G.Cap("q", None, None, None, "=", 0)]
            s = G.CallN("lo", None, tuple(own), (G.CallN("li", None, tuple(sib), ()),))
        # make sure there is at least one constraint
        if not list(constrained_caps(s)):
            vop, val = draw(constraint())
            s = _constrain_first(s, vop, val)
        return s

    @st.composite
    def throttle_sel(draw):
        fv = draw(st.sampled_from(["q", "tot"]))
        k = draw(st.integers(1, 4))
        on = draw(st.sampled_from(["y", "p", fv]))
        caps = []
        if on != fv:
            caps.append(G.Cap(on, None, None, ("call", "throttle", (("sym", str(k)),)), "~", 0))
            caps.append(G.Cap(fv, None, None, None, "=", 1))
        else:
            caps.append(G.Cap(fv, None, None, ("call", "throttle", (("sym", str(k)),)), "~", 1))
        return G.CallN("li", None, tuple(caps), ())

    @st.composite
    def dup_sel(draw):
        vop, val = draw(constraint())
        outer = G.Cap(draw(st.sampled_from(["m", "acc", "x"])), "D0", None, val, vop, 0)
        inner = G.Cap(draw(st.sampled_from(["tot", "y", "p"])), "D1", None, None, "=", 0)
        return G.CallN("lo", None, (outer,), (G.CallN("li", None, (inner, G.Cap("q", None, None, None, "=", 1)), ()),))

    ints = st.lists(small, min_size=0, max_size=5)
    sorted_ints = ints.map(sorted)
    return st.one_of(
        st.tuples(dup_sel(), ints, ints, small, st.just("dup")),
        st.tuples(sel(), ints, ints, small, st.sampled_from([None, "const", "fn"])),
        st.tuples(sel(), ints, ints, small, st.sampled_from([None, "const", "fn", "total"])),
        st.tuples(throttle_sel(), sorted_ints, sorted_ints, small, st.none()),
    )


def _constrain_first(s, vop, val):
    fp = M.focus_path(s)
    last = fp[-1]
    caps = list(last.caps)
    for i, c in enumerate(caps):
        if c.focus == 1:
            caps[i] = c._replace(value=val, vop=vop)
    new_last = last._replace(caps=tuple(caps))

    def rebuild(n):
        if n is last:
            return new_last
        return n._replace(children=tuple(rebuild(ch) for ch in n.children))

    return rebuild(s)


# ---------------------------------------------------------------------------------------


def replay(payload):
    if payload.get("mode") == "box":
        args = payload["args"]
        if payload["kind"] == "throttle":
            args = (args[0], tuple(args[1]))
        v, why = box_check(payload["kind"], tuple(args), [payload["v"]])
        if why:
            return [{"clause": "predicate", "detail": f"{payload['kind']}{tuple(payload['args'])}({v}) {why}"}]
        return []
    sel = eval(payload["selector"], {"CallN": G.CallN, "Cap": G.Cap})
    try:
        check_e2e(sel, payload["xs"], payload["ys"], payload["p0"], payload["ov"])
    except PropertyViolation as v:
        return [{"clause": v.clause, "detail": v.detail}]
    return []


def plan(tier, seed, scale):
    cfgs = []
    n = 16
    box = (-6, 6, -20, 20) if tier == "quick" else (-9, 9, -30, 30)
    for i in range(n):
        cfgs.append({"mode": "box", "box": box, "part": i, "parts": n})
    ex = 500 if tier == "quick" else 12000
    for i in range(n if tier == "quick" else 32):
        cfgs.append({"mode": "e2e", "examples": int(ex * scale)})
    return cfgs


def shard(cfg):
    rec = Recorder()
    if cfg["mode"] == "box":
        lo_, hi, vlo, vhi = cfg["box"]
        vs = list(range(vlo, vhi + 1))
        viol = {}
        n = 0
        for i, (kind, args) in enumerate(box_cases(lo_, hi)):
            if i % cfg["parts"] != cfg["part"]:
                continue
            v, why = box_check(kind, args, vs)
            n += len(vs)
            if why and kind not in viol:
                pv = PropertyViolation("predicate", f"{kind}{args}({v}) {why}", extra={"bucket": "predicate:" + kind})
                viol[kind] = violation_record(PROPERTY, pv, {"mode": "box", "kind": kind, "args": list(args), "v": v})
        rec.evaluations += n
        rec.count("box_evaluations", n)
        res = rec.result()
        res["violations"] = list(viol.values())
        return res

    def body(case):
        sel, xs, ys, p0, ov = case
        check_e2e(sel, xs, ys, p0, ov, rec)

    n, v, herr = hyp_search(e2e_strategy(), body, seed=cfg["seed"] * 1000 + cfg["shard"],
                            max_examples=cfg["examples"], case_cpu_s=30.0)
    res = rec.result()
    if v is not None:
        sel, xs, ys, p0, ov = v.case
        res["violations"] = [violation_record(PROPERTY, v, {"mode": "e2e", "selector": repr(sel), "xs": xs,
                                                            "ys": ys, "p0": p0, "ov": ov})]
    if herr:
        res["harness_errors"] = [herr]
    return res


def coverage_extra(agg, tier):
    return {"exhaustive": True,
            "explanation": "part (a) enumerates the stated integer box completely "
            f"({agg['counters'].get('box_evaluations', 0)} predicate evaluations); part (b) is sampled"}
