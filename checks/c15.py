"""C15 - the documented selector notations are interchangeable.

Oracle (none of it obtained from ptera):
  (1) every documented spelling / re-spacing of one IR parses to the *same object*;
  (2) that object's field tree equals denote(IR);
  (3) .main is exactly the capture marked '!' / standing after the last '>';
  (4) building the selector directly through Element(...)/Call(...) from the denotation
      yields that same object (structural equality <=> identity), and within a batch two
      objects with equal field trees are never distinct;
  (5) select() against a fixed environment maps all spellings to one object as well
      (only for IRs whose values are literals: call values create fresh objects per eval).
"""

import types

from vlib import selgen as G
from vlib.core import PropertyViolation, Recorder, hyp_search, violation_record, h64

PROPERTY = "C15"
RULE = (
    "IRs from selgen (bounded-exhaustive over a reduced alphabet + Hypothesis-random up to depth 3 / "
    "width 3); each IR is rendered in its documented spellings ('>' chains vs nested '!', () regrouping, "
    "'$x' vs '* as x', 'f() as r' vs 'f(!#value as r)', 'f(b)=c' vs 'f(b, #value=c)') and whitespace "
    "variants, optionally after a rejected (malformed) selector went through the compiler. evaluations = parse() calls compared. A case (IR) is non-trivial when it has depth >= 2 "
    "and uses >= 2 of {alias, tag, value, generic capture, meta-variable}; distinct by IR hash."
)
ASSUMPTIONS = [
    "only the equivalences the documentation/tests state are asserted (see DESIGN.md C15 notes)",
    "whitespace is only inserted next to operator tokens; `as` keeps >=1 blank on both sides",
]


def _env():
    def f(a, b, c, x, y, loss, _v1):
        pass

    def g():
        pass

    def h():
        pass

    class K:
        def meth(self):
            pass

    mod = types.SimpleNamespace(fn=g, K=K)
    return {"f": f, "g": g, "h": h, "K": K, "mod": mod, "N": 7, "pred": abs}


_ENV = None


# malformed selectors whose rejection happens at different depths of the compiler (inside call
# parentheses, inside a nested call, at top level, in the lexer): rejecting one must not change
# what later selectors mean
POISONS = ["inner(a b)", "outer(n, inner(a):zzz)", "outer(n, inner(a) > )", "f(a", "f(a,,b)", "f(!)", "f(g(!!)) >",
           "f(x as) > y", "{x}", "f(a=) > b", "f(g(h(1 2)))", "f > g(a b) > c"]


def check_ir(ir, renderings, rec=None, poison=None):
    """renderings: list of (choices, ws_choices).  Raises PropertyViolation."""
    global _ENV
    from ptera import selector as S

    if poison is not None:
        try:
            S.parse(poison)
        except BaseException as e:  # noqa
            if isinstance(e, (KeyboardInterrupt, SystemExit)):
                raise
    canon = G.canonical(ir)
    expected = G.d_call(ir)
    try:
        obj0 = S.parse(canon)
    except BaseException as e:
        raise PropertyViolation(
            "canonical-parse", f"canonical spelling {canon!r} fails to parse: {type(e).__name__}: {e}",
            extra={"bucket": "canonical-parse:" + type(e).__name__},
        )
    actual = G.dump(obj0)
    if actual != expected:
        raise PropertyViolation(
            "denotation", f"{canon!r} parsed to {actual!r}, expected {expected!r}"
        )
    n = 1
    # the focused elements, inspected the way the test-suite does (indexing the tag table), then
    # the selector's own answer: read-only inspections, in this order
    marked = obj0.all_tags[1]
    if bool(marked) != (G.count_focus(ir) >= 1) or bool(obj0.focus) != (G.count_focus(ir) >= 1):
        raise PropertyViolation(
            "focus", f"{canon!r} marks {G.count_focus(ir)} focus variable(s) but all_tags[1] holds {len(marked)} "
                     f"element(s) and .focus is {obj0.focus!r}")
    fc = G.focus_cap(ir) if G.count_focus(ir) == 1 else None
    if G.count_focus(ir) <= 1:
        m = obj0.main
        want = None if fc is None else G.d_cap(fc)
        got = None if m is None else G.dump(m)
        if got != want:
            raise PropertyViolation("main", f"{canon!r}.main is {got!r}, expected {want!r}")
    built = G.construct(expected)
    if built is not obj0:
        raise PropertyViolation(
            "interning", f"constructing the fields of {canon!r} directly gives a different object"
        )
    seen = {canon}
    literal_only = "VC" not in repr(expected)
    sel0 = None
    if literal_only and "*" not in repr([c for c in _fnnames(ir)]):
        if _ENV is None:
            _ENV = _env()
        try:
            sel0 = S.select(canon, env=_ENV)
        except BaseException:
            sel0 = None
    for choices, ws in renderings:
        s = G.render(ir, choices, ws)
        if s in seen:
            continue
        seen.add(s)
        try:
            o = S.parse(s)
        except BaseException as e:
            raise PropertyViolation(
                "spelling-parse",
                f"spelling {s!r} of {canon!r} fails to parse: {type(e).__name__}: {e}",
                extra={"bucket": "spelling-parse:" + type(e).__name__},
            )
        n += 1
        if o is not obj0:
            kind = "spelling-structure" if G.dump(o) != actual else "spelling-identity"
            raise PropertyViolation(
                kind, f"{s!r} and {canon!r} parse to different selectors: {G.dump(o)!r} vs {actual!r}"
            )
        if sel0 is not None:
            try:
                so = S.select(s, env=_ENV)
            except BaseException as e:
                raise PropertyViolation(
                    "select-spelling", f"select({s!r}) raises {type(e).__name__}: {e} but select({canon!r}) works"
                )
            if so is not sel0:
                raise PropertyViolation(
                    "select-identity", f"select({s!r}) is not select({canon!r})"
                )
    if rec is not None:
        feats = G.ir_features(ir)
        rich = len(feats & {"alias", "tag", "value", "value-match", "generic", "meta"})
        nontrivial = "depth>=2" in feats and rich >= 2
        rec.case(h64(repr(ir)), nontrivial, feats, sample=lambda: {"ir": repr(ir), "spellings": sorted(seen)[:4]})
        rec.evaluations += n - 1
        rec.count("spellings", len(seen))
        rec.count("irs", 1)
    return n


def _fnnames(c):
    yield c.fn
    for ch in c.children:
        yield from _fnnames(ch)


# ---------------------------------------------------------------------------------------


def _payload(ir, renderings, poison=None):
    return {"ir": repr(ir), "renderings": [[list(a), list(b)] for a, b in renderings], "poison": poison}


def _ir_from_repr(s):
    return eval(s, {"CallN": G.CallN, "Cap": G.Cap})


def replay(payload):
    ir = _ir_from_repr(payload["ir"])
    rend = [(a, b) for a, b in payload["renderings"]]
    try:
        check_ir(ir, rend, poison=payload.get("poison"))
    except PropertyViolation as v:
        return [{"clause": v.clause, "detail": v.detail}]
    return []


EXH_CAPS = [
    G.cap("a"),
    G.cap("b", alias="q"),
    G.cap(None, alias="x"),
    G.cap("c", tag="A"),
    G.cap("#value", value=("sym", "3")),
    G.cap("y", value=("call", "every", (("sym", "2"),)), vop="~"),
]
EXH_FOCUS = [
    G.cap("z", focus=1),
    G.cap(None, alias="r", focus=1, tag="B"),
    G.cap("#value", alias="r", focus=1),
]


def _systematic_renderings(ir):
    """A fixed family of renderings: all-peel / no-peel / alternates x whitespace styles."""
    out = []
    for base in ([0] * 24, [1] * 24, [1, 0] * 12, [0, 1] * 12, [2, 1, 0] * 8, [1, 2, 0, 0] * 6):
        for ws in ([0] * 40, [1] * 40, [3, 0, 1] * 14):
            out.append((base, ws))
    return out


def plan(tier, seed, scale):
    cfgs = []
    nsh = 16
    # exhaustive sub-spaces: (depth, #caps of EXH_CAPS, functions, captures per call, children per call, #focus forms)
    if tier == "quick":
        for i in range(nsh):
            cfgs.append({"mode": "exh", "space": (2, 6, ["f", "*"], 2, 1, 3), "part": i, "parts": nsh, "stride": 3})
        for i in range(nsh):
            cfgs.append({"mode": "hyp", "examples": int(600 * scale)})
    else:
        nsh = 32
        for space in [(2, 6, ["f", "*"], 2, 1, 3), (2, 4, ["f"], 2, 2, 2), (3, 3, ["f"], 2, 1, 2),
                      (3, 4, ["f", "*"], 1, 1, 3), (3, 3, ["f"], 1, 2, 2)]:
            for i in range(nsh):
                cfgs.append({"mode": "exh", "space": space, "part": i, "parts": nsh, "stride": 1})
        for i in range(nsh):
            cfgs.append({"mode": "hyp", "examples": int(15000 * scale)})
    return cfgs


def shard(cfg):
    rec = Recorder()
    out_viol = []
    if cfg["mode"] == "exh":
        d, nc, fns, wc, wch, nf = cfg["space"]
        it = G.enum_irs(d, EXH_CAPS[:nc], fns, wc, wch, EXH_FOCUS[:nf])
        stride = cfg.get("stride", 1)
        k = 0
        complete = True
        for idx, ir in enumerate(it):
            if idx % cfg["parts"] != cfg["part"]:
                continue
            k += 1
            if stride > 1 and (k + cfg["seed"]) % stride:
                complete = False
                continue
            rend = _systematic_renderings(ir)
            poison = POISONS[k % len(POISONS)] if k % 5 == 0 else None
            try:
                from vlib.core import cpu_guard, CaseHang

                try:
                    with cpu_guard(30.0):
                        check_ir(ir, rend, rec, poison=poison)
                except CaseHang as h:
                    raise PropertyViolation("hang", f"compiling the spellings of {G.canonical(ir)!r} did not finish: {h}",
                                            extra={"bucket": "hang"})
            except PropertyViolation as v:
                out_viol.append(violation_record(PROPERTY, v, _payload(ir, rend, poison)))
                break
        res = rec.result()
        res["violations"] = out_viol
        res["counters"]["exhaustive_irs" if complete else "strided_irs"] = k
        return res

    from hypothesis import strategies as st

    ir_s, ch_s = G.strategies()
    strat = st.tuples(ir_s, st.lists(st.tuples(ch_s, ch_s), min_size=2, max_size=5),
                      st.one_of(st.none(), st.none(), st.sampled_from(POISONS)))

    def body(case):
        ir, rend, poison = case
        check_ir(ir, rend, rec, poison=poison)

    n, v, herr = hyp_search(
        strat, body, seed=cfg["seed"] * 1000 + cfg["shard"], max_examples=cfg["examples"], case_cpu_s=30.0
    )
    res = rec.result()
    if v is not None:
        ir, rend, poison = v.case
        res["violations"] = [violation_record(PROPERTY, v, _payload(ir, rend, poison))]
    if herr:
        res["harness_errors"] = [herr]
    return res


def coverage_extra(agg, tier):
    return {
        "exhaustive": False,
        "explanation": "exhaustive sub-spaces: all IRs of depth<=2 over a 6-capture/3-focus alphabet with <=2 "
        "captures and <=1 child per call (quick: every 3rd, offset by seed; thorough: all, plus 2 children over "
        "a 4-capture alphabet and three depth-3 spaces over smaller alphabets)",
    }
