"""C08 - overlays and probes in concurrent threads do not interfere.

Two or three thread programs, each a sequence of rounds `activate own probe; call ...;
deactivate` on the shared functions fa/fb, run under vlib.sched: the harness owns the
schedule and places up to 3 (quick) / 5 (thorough) preemptions at generated switch points
(instruction granularity inside push/pop/get/_apply/_tooler/_untooler/transform_for/overlay
and proceed enter/exit, line granularity in the rest of the activation code and inside the functions
under test, including the instrumented variants ptera compiles for them).

Oracle: per thread, the events of every round and all return values equal the sequential
reference (vlib.model_paths on that thread's own calls); after all threads joined every
function is back on its original code, every instrumentation counter is zero, nothing is
installed in the main context and global_probes is empty; no deadlock.
"""

import copy
import types

from vlib import family as F
from vlib import hygiene as HY
from vlib import model_paths as M
from vlib import selgen as G
from vlib.core import PropertyViolation, Recorder, hyp_search, violation_record, h64

PROPERTY = "C08"
RULE = (
    "case = 2-3 thread programs (1-2 rounds each of activate <spec> / 1-2 calls of a generated plan / deactivate; "
    "7 probe specs with overlapping and disjoint capture sets incl. a total and an overridable one), every case on "
    "its own fresh function objects, x schedule (<=3 quick / <=5 thorough preemptions at generated switch points, "
    "3/4 of them inside the critical instruction-level functions). evaluations = schedules executed (plus one "
    "unpreempted baseline per case). Non-trivial = >=1 realised preemption landed inside a critical function "
    "while another thread later ran a critical function on the same target; distinct by realised (switch point, "
    "thread) sequence and programs."
)
ASSUMPTIONS = [
    "only pure-Python interleavings at bytecode granularity under the GIL are explored",
    "a schedule that leaves some thread unfinished after 10 s is reported as a deadlock (the unpreempted baseline of the same case finished at once)",
]


def _c(fn, caps=(), children=()):
    return G.CallN(fn, None, tuple(caps), tuple(children))


def _cap(name, alias, focus=0):
    return G.Cap(name, alias, None, None, "=", focus)


SPECS = [
    {"sel": _c("fa", [_cap("u", "a0", 1)]), "mode": "imm"},
    {"sel": _c("fa", [_cap("w", "b0", 1)]), "mode": "imm"},
    {"sel": _c("fb", [_cap("u", "c0", 1)]), "mode": "imm"},
    {"sel": _c("fa", [_cap("w", "d0"), _cap("u", "d1", 1)]), "mode": "imm"},
    {"sel": _c("fa", [_cap("u", "e0")]), "mode": "total"},
    {"sel": _c("fb", [], [_c("fa", [_cap("u", "g0", 1)])]), "mode": "imm"},
    {"sel": _c("fa", [_cap("u", "h0", 1)]), "mode": "imm", "overridable": True},
]
_CRITICAL = {"push", "pop", "get", "_apply", "_tooler", "_untooler", "transform_for", "_register"}
_NONCRIT = {"__enter__", "__exit__", "_enter", "_exit", "_gensym"}


class _Crit:
    """The critical functions: the fixed core plus every helper they call by name (discovered
    by vlib.sched.setup on the tree under test)."""

    def __contains__(self, name):
        from vlib import sched as SC

        return name in _CRITICAL or (name in SC.EXTRA_CRITICAL and name not in _NONCRIT)


CRITICAL = _Crit()


def expected_events(spec, roots):
    tr = M.simulate(roots)
    if spec["mode"] == "imm":
        return [e for g in M.immediate_events(spec["sel"], tr) for e in g]
    return M.total_records(spec["sel"], tr)


def expected_out(roots):
    out = []
    for r in roots:
        e = M.escaping(r)
        out.append(("boom", e) if e is not None else ("ret", r["ret"]))
    return out


INCALL = 100  # rounds whose spec index is >= INCALL activate their probe from inside their first call


def spec_of(si):
    return SPECS[si % INCALL]


def is_incall(si):
    return si >= INCALL and spec_of(si)["mode"] == "imm"


def with_cb(roots, ti):
    """The first root with a callback node (fn cbt<ti>) inserted two activations deep if possible."""
    roots = copy.deepcopy(roots)
    host = roots[0]
    for _ in range(2):
        kids = host["pre"] + host["post"]
        if not kids:
            break
        host = kids[0]
    host["pre"].insert(0, {"id": 9000 + ti, "fn": f"cbt{ti}", "u0": 0, "w0": 0, "ru": None, "rw": None, "pre": [],
                           "post": [], "via": False, "catch": False, "raises": False, "ret": 0})
    return roots


def round_expected(si, calls, ti):
    spec = spec_of(si)
    if not is_incall(si):
        return [e for roots in calls for e in expected_events(spec, roots)]
    first = with_cb(calls[0], ti)
    tr = M.simulate(first)
    t_cb = next(b.t for b in tr.binds if b.act.fn == f"cbt{ti}")
    evs = [e for g in M.immediate_events(spec["sel"], tr, within=lambda t: t > t_cb) for e in g]
    return evs + [e for roots in calls[1:] for e in expected_events(spec, roots)]


def renumber(roots, base):
    k = [base]

    def walk(n):
        nid = k[0]
        k[0] += 1
        n = dict(n)
        n.update(id=nid, u0=nid * 10 + 1, w0=nid * 10 + 5, ret=nid * 10 + 9,
                 ru=(nid * 10 + 2) if n["ru"] is not None else None,
                 rw=(nid * 10 + 6) if n["rw"] is not None else None)
        n["pre"] = [walk(c) for c in n["pre"]]
        n["post"] = [walk(c) for c in n["post"]]
        return n

    return [walk(r) for r in roots]


def make_functions(fresh):
    if not fresh:
        return dict(F.RAW)
    out = {}
    for name in ("fa", "fb", "fc"):
        f = F.RAW[name]
        g = types.FunctionType(f.__code__, f.__globals__, f.__name__, f.__defaults__, f.__closure__)
        g.__qualname__ = f.__qualname__
        g.__module__ = f.__module__
        out[name] = g
    out["ga"] = F.RAW["ga"]
    out["fd"] = F.RAW["fd"]
    return out


RR = [False]


def _boundary():
    from vlib import sched as SC

    s = SC.SCHED
    if RR[0] and s is not None and s.active and s.me() == s.cur:
        s.yield_other()


def run_schedule(programs, fresh, preempt, by_label=None):
    """Returns (sched, per-thread results, post-problems, finished, errors)."""
    from ptera.probe import Probe, OverridableProbe
    from vlib import sched as SC

    SC.setup()
    fns = make_functions(fresh)
    F.DISPATCH.update(fns)
    env = dict(fns)
    states = [HY.FnState(fns[n]) for n in ("fa", "fb", "fc")]
    results = [[] for _ in programs]

    def prog(i, rounds):
        def run():
            for si, calls in rounds:
                spec = spec_of(si)
                cls = OverridableProbe if spec.get("overridable") else Probe
                p = cls(G.canonical(spec["sel"]), env=env, raw=spec["mode"] == "total")
                sink = p.accum()
                outs = []
                if is_incall(si):
                    # the probe is activated from inside this thread's first call
                    F.DISPATCH[f"cbt{i}"] = lambda node, p=p: (p.__enter__(), node["ret"])[1]
                    outs.append(F.drive(with_cb(calls[0], i)))
                    rest = calls[1:]
                else:
                    p.__enter__()
                    rest = calls
                _boundary()
                try:
                    for roots in rest:
                        outs.append(F.drive(copy.deepcopy(roots)))
                        _boundary()
                finally:
                    p.__exit__(None, None, None)
                _boundary()
                if spec["mode"] == "total":
                    evs = [{k: list(c.values) for k, c in ev.items()} for ev in sink]
                else:
                    evs = list(sink)
                results[i].append((evs, outs))
        return run

    s = SC.Sched(len(programs), preempt)
    if by_label is not None:
        s.by_label = by_label
    s.labels = []
    orig_point = s.point

    def point(label):
        if s.active and s.me() == s.cur:
            s.labels.append(label)
        orig_point(label)

    s.point = point
    try:
        finished, errors = s.run([prog(i, r) for i, r in enumerate(programs)])
    finally:
        F.DISPATCH.update(F.RAW)
    problems = []
    for st in states:
        for pr in st.is_clean():
            problems.append(f"{st.fn.__name__}: {pr}")
    problems += HY.global_state_problems()
    for st in states:
        if st.is_clean():
            st.force_clean()
    HY.force_global_clean()
    return s, results, problems, finished, errors


def label_schedule(s):
    """The realised preemptions of a run as [(label, occurrence, target)] - what replay uses."""
    out = []
    for k, lab, a, b in s.trace:
        occ = sum(1 for x in s.labels[:k] if x == lab)
        out.append([list(lab), occ, b])
    return out


def check_case(programs, fresh, raw_preempts, max_pre, rec=None, by_label=None):
    # 2nd parameter: "rr" = the threads also hand the baton on at every operation boundary (after
    # an activation, after each call, before a deactivation), so that one thread's activations
    # fall between another thread's calls even without a generated preemption; anything else
    # (True in older replay files) = threads run to completion unless preempted
    RR[0] = fresh == "rr"
    mode = "rr" if RR[0] else "seq"
    fresh = True  # every case works on its own function objects: no state shared between cases
    # programs: list (per thread) of rounds [(spec index, [roots, ...])], ids made unique per thread
    programs = [[(si, [renumber(r, 100 * (ti + 1) + 30 * ri + 10 * ci) for ci, r in enumerate(calls)])
                 for ri, (si, calls) in enumerate(rounds)] for ti, rounds in enumerate(programs)]
    want = [[(round_expected(si, calls, ti), [expected_out(roots) for roots in calls]) for si, calls in rounds]
            for ti, rounds in enumerate(programs)]
    # baseline (no preemption): measures the switch points and must itself be correct
    s0, res0, prob0, fin0, err0 = run_schedule(programs, fresh, {})
    desc = f"programs {[[(si, [__import__('vlib.treegen', fromlist=['x']).plan_brief(r) for r in calls]) for si, calls in rounds] for rounds in programs]} baton={mode}"
    if not fin0 or any(err0) or res0 != want or prob0:
        raise PropertyViolation(
            "sequential", f"even the unpreempted run is wrong: finished={fin0} errors={err0} problems={prob0} "
                          f"results={res0} expected={want}\n{desc}")
    labels = s0.labels
    K = len(labels)
    crit = [i for i, lab in enumerate(labels) if lab[0] in CRITICAL] or list(range(K))
    # (the functions under test and what runs at the entry of every instrumented call)
    calls = [i for i, lab in enumerate(labels) if lab[0] in ("fa", "fb", "fc", "_call", "fits_selector", "proceed")] or crit
    from vlib import sched as SC_

    helper_names = SC_.EXTRA_CRITICAL - _CRITICAL - _NONCRIT
    helpers = [i for i, lab in enumerate(labels) if lab[0] in helper_names]
    preempt = {}
    n = len(programs)
    for j, (r, tgt, anywhere) in enumerate(raw_preempts[:max_pre]):
        # 1/4 anywhere, 1/4 inside the (instrumented) functions under test, 1/2 in critical sections
        pool = list(range(K)) if anywhere else (calls if (r // 7) % 3 == 0 else crit)
        if not anywhere and helpers and (r // 21) % 3 == 0:
            pool = helpers  # inside helpers the critical functions call (found on the tree under test)
        preempt[pool[r % len(pool)]] = tgt % n
    bl = None
    if by_label is not None:
        bl = {((lab[0], lab[1]), occ): tgt for lab, occ, tgt in by_label}
        preempt = {}
    s, res, problems, finished, errors = run_schedule(programs, fresh, preempt, bl)
    check_case.last_schedule = label_schedule(s)
    sched_desc = f"preemptions {[(k, lab, a, b) for k, lab, a, b in s.trace]} (requested {sorted(preempt.items())})"
    if not finished:
        raise PropertyViolation("deadlock", f"threads did not finish within 10 s under {sched_desc}\n{desc}")
    for i, e in enumerate(errors):
        if e is not None:
            raise PropertyViolation(
                "thread-error", f"thread {i} raised {HY.describe_exc(e)} under {sched_desc}\n{desc}",
                extra={"bucket": "thread-error:" + HY.exc_bucket(e)})
    for i, (got, exp) in enumerate(zip(res, want)):
        if got != exp:
            raise PropertyViolation(
                "interference", f"thread {i} observed {got}, sequential reference {exp}; {sched_desc}\n{desc}",
                extra={"bucket": "interference"})
    if problems:
        raise PropertyViolation("residue", f"after all threads joined: {problems}; {sched_desc}\n{desc}",
                                extra={"bucket": "residue"})
    if rec is not None:
        realised = s.trace
        in_crit = [t for t in realised if t[1][0] in CRITICAL]
        nt = False
        if in_crit:
            # another thread later ran a critical function
            first = in_crit[0][0]
            later = [lab for lab in s.labels[first + 1:] if lab[0] in CRITICAL]
            nt = bool(later)
        feats = {f"threads:{n}", f"realised:{len(realised)}", "baton:" + mode}
        if in_crit:
            feats.add("preempt-in-critical")
        rec.case(h64(repr((programs, mode, [(k, a, b) for k, _, a, b in realised]))), nt, feats,
                 sample=lambda: {"threads": n, "preemptions": [[k, list(lab), a, b] for k, lab, a, b in realised],
                                 "switch_points": K})
        rec.evaluations += 1


def replay(payload):
    progs = [[(si, calls) for si, calls in rounds] for rounds in payload["programs"]]
    attempts = []
    if payload.get("schedule"):
        attempts.append({"by_label": payload["schedule"]})
    attempts.append({})
    for kw in attempts:
        try:
            check_case(progs, payload.get("fresh", True), [tuple(p) for p in payload["preempts"]], payload["max_pre"], **kw)
        except PropertyViolation as v:
            return [{"clause": v.clause, "detail": v.detail}]
    return []


def strategy(max_pre):
    from hypothesis import strategies as st
    from vlib import treegen as T

    plans = T.plan_strategy(max_nodes=4, max_depth=3, fns=["fa", "fa", "fb"], raising=False)

    @st.composite
    def cases(draw):
        n = draw(st.sampled_from([2, 2, 3]))
        programs = []
        for i in range(n):
            rounds = []
            for _ in range(draw(st.integers(1, 2))):
                si = draw(st.integers(0, len(SPECS) - 1)) + (INCALL if draw(st.integers(0, 3)) == 0 else 0)
                calls = [draw(plans) for _ in range(draw(st.integers(1, 2)))]
                rounds.append((si, calls))
            programs.append(rounds)
        fresh = draw(st.sampled_from(["rr", "seq"]))
        npre = draw(st.integers(1, max_pre))
        pre = [(draw(st.integers(0, 10 ** 6)), draw(st.integers(0, 2)), draw(st.integers(0, 3)) == 0)
               for _ in range(npre)]
        return programs, fresh, pre, max_pre

    return cases()


def plan(tier, seed, scale):
    if tier == "quick":
        return [{"examples": int(600 * scale), "max_pre": 3} for _ in range(16)]
    return [{"examples": int(1200 * scale), "max_pre": 3 if i % 2 else 5} for i in range(32)]


def shard(cfg):
    rec = Recorder()

    def body(case):
        check_case(*case, rec=rec)

    n, v, herr = hyp_search(strategy(cfg["max_pre"]), body, seed=cfg["seed"] * 1000 + cfg["shard"],
                            max_examples=cfg["examples"], shrink_budget_s=60.0)
    res = rec.result()
    if v is not None:
        programs, fresh, pre, max_pre = v.case
        # re-run the shrunk case once more to record its realised schedule by label
        sched = None
        try:
            check_case(programs, fresh, pre, max_pre)
        except PropertyViolation:
            sched = getattr(check_case, "last_schedule", None)
        res["violations"] = [violation_record(PROPERTY, v, {"programs": programs, "fresh": fresh,
                                                            "preempts": [list(p) for p in pre], "max_pre": max_pre,
                                                            "schedule": sched})]
    if herr:
        res["harness_errors"] = [herr]
    return res
