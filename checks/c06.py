"""C06 - entry/exit, loop, yield, return and error meta-events bracket every path.

Domain: generated functions and generators (same IR as C01, every second one a generator)
x inputs x driver scripts (next/send/throw/close/drop).  One raw multi-selector probe merges
#enter/#exit/#value/#error/#yield/#receive/#loop_X/#endloop_X and `$v` into one ordered
stream; a second probe uses the wrapper form f(!#enter, #error, !!#exit).

Oracle: structural clauses taken from the property, evaluated against the reference twin's
trace and the outcome the caller actually observed (never one fixed interleaving of
different kinds where the property states none):
  (1) no events if the body never ran; otherwise exactly one #enter, first, and one #exit, last;
  (2) #value exactly once iff the activation completed normally, carrying the value the
      caller received; #error exactly once iff it ended by raising, carrying that exception
      (GeneratorExit on close/drop);
  (3) loop begin/end events: consumed against the twin's loop events in order - for every
      twin iteration over target names N the next |N| real loop events are exactly
      {#loop_X | X in N} (resp. #endloop_X); this implies balance, count and proper nesting;
  (4) the #yield / #receive projection equals the twin's yield/receive sequence, which equals
      what the driver received and sent, alternating yield -> receive;
  (5) the merged variable-binding sequence equals the twin's, and every binding that is not
      a loop target sits at the same loop depth as in the twin;
  (W) the wrapper form delivers exactly one begin and one end per started activation.
"""

import sys

from vlib import hygiene as HY
from vlib import progen as PG
from vlib import prorun as PR
from vlib.core import PropertyViolation, Recorder, hyp_search, violation_record, h64
from checks import c01

PROPERTY = "C06"
RULE = (
    "case = generated function or generator (progen IR biased to loops / try-finally / early exits) x input x "
    "driver script over next/send/throw/close/drop. Non-trivial = some loop iteration is left other than by "
    "fall-through (break/continue/return/raise/close), or the path passes through a finally, or a generator is "
    "closed / thrown into / dropped while suspended; distinct by (source, input, script)."
)
ASSUMPTIONS = [
    "variables of one tuple loop target are aliases of one loop: their #loop events are compared as a set per iteration",
    "a return statement that ran and was later superseded inside a finally is the known finding KF-C06-1: the value clause is skipped for that class (counted)",
    "yield-from delegation: only the function's own yields are checked",
    "$v also reports #enter/#exit/#yield/#receive and the entry values of externals/closure variables; those are filtered by name",
]


def flags():
    return PG.Flags(finally_return=True)


def loop_targets(fn):
    out = []
    for s in PG.walk_stmts(fn["body"]):
        if s[0] == "for":
            for n in PG.target_names(s[1]):
                if n not in out:
                    out.append(n)
    return out


def real_stream(fn, f, glb, recipe, script, delivery="probing"):
    """Run under the merged raw probe; returns ([(name, value)], wrapper events, outcome)."""
    from ptera import probing

    sels = ["f > #enter", "f > #exit", "f > #value", "f > #error", "f > $v"]
    if fn["gen"]:
        sels += ["f > #yield", "f > #receive"]
    for n in loop_targets(fn):
        sels += [f"f > #loop_{n}", f"f > #endloop_{n}"]
    stream = []

    def on(ev):
        for key, cap in ev.items():
            nm = cap.name
            if key == "v" and nm.startswith("#"):
                continue
            stream.append((nm, cap.value))

    wrap = []
    if delivery == "probing":
        with probing("f(!#enter, #error, !!#exit)", env={"f": f}) as wp:
            wp.subscribe(lambda d: wrap.append((d["$wrap"]["step"], "#error" in d)))
            with probing(*sels, env={"f": f}, raw=True) as p:
                p.subscribe(on)
                out = PR.run_call(f, fn, recipe, glb, script)
    else:
        # one transform only: a tooled copy under an Overlay with the same selectors
        import ptera
        from ptera.interpret import Immediate
        from ptera.overlay import BaseOverlay
        from ptera.probe import Probe

        g = ptera.tooled(f)
        hs = [Immediate(ptera.select(sx, env={"f": g}), trigger=on) for sx in sels]
        wp = Probe("f(!#enter, #error, !!#exit)", env={"f": g})
        wp.subscribe(lambda d: wrap.append((d["$wrap"]["step"], "#error" in d)))
        with wp._ol:
            with BaseOverlay(*hs):
                out = PR.run_call(g, fn, recipe, glb, script)
    return stream, wrap, out


def check_case(fn, recipe, script, delivery="probing", rec=None, strict=False):
    src = PG.render(fn)
    twin_src = PG.render(fn, twin=True)
    H = PR.Hooks()
    f2, g2 = PR.load(twin_src, extra={"H": H})
    try:
        tout = PR.run_call(f2, fn, recipe, g2, script)
    finally:
        PR.forget(g2)
    f, glb = PR.load(src)
    try:
        with PR.time_limit(3.0):
            S, wrap, out = real_stream(fn, f, glb, recipe, script, delivery)
    except PR.Timeout:
        HY.force_global_clean()
        raise PropertyViolation("hang", f"probed run did not finish within 3 s of CPU time\n{src}")
    except BaseException as e:
        if isinstance(e, (KeyboardInterrupt, SystemExit)):
            raise
        HY.force_global_clean()
        raise PropertyViolation("run", f"probed run raised {HY.describe_exc(e)}\n{src}",
                                extra={"bucket": "run:" + HY.exc_bucket(e)})
    finally:
        PR.forget(glb)
    T = H.trace
    ctx = f"input {recipe!r} script {script!r}\nstream {[(n, PR.nrepr(v)) for n, v in S][:60]}\n{src}"

    def fail(clause, msg):
        raise PropertyViolation(clause, msg + "\n" + ctx, extra={"bucket": clause})

    if PR.comparable(out) != PR.comparable(tout):
        fail("outcome", f"probed run outcome {PR.comparable(out)[:2]} differs from the reference {PR.comparable(tout)[:2]}")
    started = any(t[0] == "enter" for t in T)
    names = [n for n, _ in S]
    # (1)
    if not started:
        if S:
            fail("bracket", "events although the body never ran")
    else:
        if names.count("#enter") != 1 or names[0] != "#enter":
            fail("bracket", f"#enter must come exactly once and first: {names[:6]}")
        abandoned = not any(t[0] == "exit" for t in T)  # generator that ignored GeneratorExit: frame discarded
        if abandoned:
            if "#exit" in names:
                fail("bracket", "#exit delivered although the generator frame was abandoned")
        elif names.count("#exit") != 1 or names[-1] != "#exit":
            fail("bracket", f"#exit must come exactly once and last: {names[-6:]}")
    # (2)
    terr = [t for t in T if t[0] == "error"]
    res = tout["result"]
    normal = started and not terr
    tvals = [t for t in T if t[0] == "bind" and t[1] == "#value"]
    superseded = len(tvals) >= 2 or (tvals and terr) or (tvals and not any(t[0] == "exit" for t in T))
    if started and not any(t[0] == "exit" for t in T):
        normal = False
    vals = [v for n, v in S if n == "#value"]
    errs = [v for n, v in S if n == "#error"]
    if superseded and not strict:
        # a return statement ran and was then superseded inside a finally (another return, an
        # exception, a yield that never resumed): ptera reports #value at the return
        # *statement*.  Known finding KF-C06-1; the value clause is skipped for this class.
        if rec is not None:
            rec.count("excluded_by_known_finding:KF-C06-1")
        if terr and len(errs) != 1:
            fail("error", f"an activation ending by {terr[0][1]} must deliver #error exactly once, got {len(errs)}")
    elif normal:
        if len(vals) != 1:
            fail("value", f"normal completion must deliver #value exactly once, got {len(vals)}")
        got_v = PR.nrepr(vals[0])
        want_v = res[1] if res[0] in ("ret", "stop") else None
        if want_v is not None and got_v != want_v:
            fail("value", f"#value carried {got_v}, the caller received {want_v}")
        if errs:
            fail("error", "#error delivered although the activation completed normally")
    elif started and terr:
        if vals:
            fail("value", f"#value delivered {len(vals)} time(s) although the activation ended by raising")
        if len(errs) != 1:
            fail("error", f"an activation ending by {terr[0][1]} must deliver #error exactly once, got {len(errs)}")
        if type(errs[0]).__name__ != terr[0][1]:
            fail("error", f"#error carried {type(errs[0]).__name__}, the activation ended by {terr[0][1]}")
        if res[0] == "exc" and out.get("exc_obj") is not None and errs[0] is not out["exc_obj"] \
                and type(out["exc_obj"]).__name__ == terr[0][1]:
            fail("error", "#error did not carry the exception object the caller received")
    # (3)
    real_loops = [(n, v) for n, v in S if n.startswith("#loop_") or n.startswith("#endloop_")]
    i = 0
    for t in T:
        if t[0] in ("loop", "endloop"):
            N = t[2]
            prefix = "#loop_" if t[0] == "loop" else "#endloop_"
            want = {prefix + x for x in N}
            got = {n for n, _ in real_loops[i : i + len(N)]}
            if got != want:
                fail("loops", f"loop event #{i}: expected {sorted(want)}, got {[n for n, _ in real_loops[i:i + len(N)]]}")
            i += len(N)
    if i != len(real_loops):
        fail("loops", f"{len(real_loops) - i} extra loop event(s): {[n for n, _ in real_loops[i:]]}")
    # (4)
    ry = [(n, PR.nrepr(v)) for n, v in S if n in ("#yield", "#receive")]
    ty = [("#yield" if t[0] == "yield" else "#receive", PR.nrepr(t[1])) for t in T if t[0] in ("yield", "recv")]
    if ry != ty:
        fail("yield", f"yield/receive projection {ry} differs from the reference {ty}")
    # alternation yield -> receive holds exactly where the twin's does (a yield left by
    # throw()/close()/drop has no receive): the equality above already enforces it
    ydrv = [PR.nrepr(v) for v in out.get("yielded", [])]
    if [v for n, v in ry if n == "#yield"][: len(ydrv)] != ydrv and not any(s[0] == "yieldfrom" for s in PG.walk_stmts(fn["body"])):
        fail("yield", f"#yield values {[v for n, v in ry if n == '#yield']} differ from what the driver received {ydrv}")
    # (5)
    def bind_depths(seq, kind):
        out_, depth, skip = [], 0, 0
        for item in seq:
            if kind == "twin":
                if item[0] == "loop" and item[2]:
                    depth += 1
                    skip = len(item[2])
                elif item[0] == "endloop" and item[2]:
                    depth -= 1
                elif item[0] == "bind" and not item[1].startswith("#"):
                    out_.append((item[1], PR.nrepr(item[2]), None if skip > 0 else depth))
                    skip = max(0, skip - 1)
            else:
                n, v = item
                if n.startswith("#loop_"):
                    depth += 1
                elif n.startswith("#endloop_"):
                    depth -= 1
                elif not n.startswith("#"):
                    out_.append((n, PR.nrepr(v), depth))
        return out_

    # real depth counts one per *variable*; normalise by counting per loop via the twin's name sets
    tb = bind_depths(T, "twin")
    # recompute real depth per loop (not per variable): walk S consuming loop name-sets like in (3)
    own = set(PG.bound_names(fn))
    rb = []
    depth = 0
    pending = 0
    li = iter([t for t in T if t[0] in ("loop", "endloop") and t[2]])
    for n, v in S:
        if n.startswith("#loop_") or n.startswith("#endloop_"):
            if pending == 0:
                t = next(li)
                pending = len(t[2])
                depth += 1 if t[0] == "loop" else -1
            pending -= 1
        elif not n.startswith("#") and n in own:
            rb.append((n, PR.nrepr(v), depth))
    if [(a, b) for a, b, _ in rb] != [(a, b) for a, b, _ in tb]:
        k = next((j for j in range(min(len(rb), len(tb))) if rb[j][:2] != tb[j][:2]), min(len(rb), len(tb)))
        fail("bindings", f"merged binding sequence differs from the reference at #{k}: "
                         f"got {rb[k][:2] if k < len(rb) else None}, expected {tb[k][:2] if k < len(tb) else None}")
    for (n1, v1, d1), (n2, v2, d2) in zip(rb, tb):
        if d2 is not None and d1 != d2:
            fail("loop-membership", f"binding {n1}={v1} happened at loop depth {d2} but was reported at depth {d1}")
    # (W)
    if started and not any(t[0] == "exit" for t in T):
        if [w[0] for w in wrap] != ["begin"]:
            fail("wrapper", f"wrapper probe delivered {wrap} for an abandoned generator frame, expected only a begin")
    elif started:
        if [w[0] for w in wrap] != ["begin", "end"]:
            fail("wrapper", f"wrapper probe delivered {wrap}, expected one begin and one end")
    elif wrap:
        fail("wrapper", f"wrapper probe delivered {wrap} although the body never ran")
    if rec is not None:
        feats = set()
        kinds = [s[0] for s in PG.walk_stmts(fn["body"])]
        loops_run = sum(1 for t in T if t[0] == "loop")
        if loops_run:
            feats.add("loop-iterations")
        early = False
        # an iteration left other than by fall-through: endloop directly after break/continue/return/raise is
        # not visible in the trace, so use: loops ran and (error or a return/break/continue statement exists)
        if loops_run and (terr or any(k in kinds for k in ("break", "continue", "return", "raise"))):
            early = True
            feats.add("early-exit-possible")
        fin = any(s[0] == "try" and s[4] for s in PG.walk_stmts(fn["body"]))
        if fin:
            feats.add("finally")
        genexit = any(t[0] == "error" and t[1] == "GeneratorExit" for t in T)
        if genexit:
            feats.add("generator-exit")
        if fn["gen"]:
            feats.add("generator")
        if terr:
            feats.add("ends-by-" + terr[0][1])
        if any(op[0] == "throw" for op in script):
            feats.add("throw")
        nt = started and (early or fin or genexit)
        feats.add("delivery:" + delivery)
        rec.case(h64(repr((src, recipe, script, delivery))), bool(nt), feats,
                 sample=lambda: {"source": src, "input": recipe, "script": script if fn["gen"] else None,
                                 "stream": [n for n, _ in S][:40]})


def replay(payload):
    fn = payload["fn"]
    fn["params"] = [tuple(p) for p in fn["params"]]
    fn["body"] = c01._tuplify(fn["body"])
    fn["closure"] = [tuple(c) for c in fn.get("closure") or []]
    recipe = {k: (v[0], v[1]) for k, v in payload["recipe"].items()}
    script = [tuple(s) for s in payload["script"]]
    try:
        check_case(fn, recipe, script, payload.get("delivery", "probing"), strict=payload.get("strict", False))
    except PropertyViolation as v:
        return [{"clause": v.clause, "detail": v.detail}]
    return []


def strategy():
    from hypothesis import strategies as st

    fl = flags()
    plain = PG.functions(fl, want_gen=False)
    gens = PG.functions(fl, want_gen=True)
    scripts = PR.scripts()

    @st.composite
    def cases(draw):
        fn = draw(gens) if draw(st.booleans()) else draw(plain)
        recipe = PG.draw_inputs(draw, fn)
        script = draw(scripts) if fn["gen"] else []
        delivery = draw(st.sampled_from(["probing", "overlay", "overlay", "overlay"]))
        return fn, recipe, script, delivery

    return cases()


def plan(tier, seed, scale):
    if tier == "quick":
        return [{"examples": int(700 * scale)} for _ in range(16)]
    return [{"examples": int(10000 * scale)} for _ in range(32)]


def shard(cfg):
    sys.unraisablehook = lambda *a, **k: None
    rec = Recorder()

    def body(case):
        check_case(*case, rec=rec)

    n, v, herr = hyp_search(strategy(), body, seed=cfg["seed"] * 1000 + cfg["shard"], max_examples=cfg["examples"])
    res = rec.result()
    if v is not None:
        fn, recipe, script, delivery = v.case
        res["violations"] = [violation_record(PROPERTY, v, {"fn": fn, "recipe": recipe, "script": script,
                                                            "delivery": delivery, "source": PG.render(fn)})]
    if herr:
        res["harness_errors"] = [herr]
    return res
