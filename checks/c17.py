"""C17 - a probe's stream opens once, completes once at exit, and is silent outside.

Stateful: one root probe per history; operations attach pipeline stages (before, during,
after the active period), activate (with-block / .values() / global), call, deactivate
(normally / by exception / deactivate()), attempt re-activation, and switch a *background*
probe on the same function on and off (so that instrumentation outlives the root probe).
Model: the list of events delivered while active (from vlib.model_paths); every sink sees
exactly the events after its attachment; reducing sinks publish exactly one value, at
deactivation, computed from precisely their events.
"""

import copy

from vlib import family as F
from vlib import hygiene as HY
from vlib import model_paths as M
from vlib import selgen as G
from vlib.core import PropertyViolation, Recorder, hyp_stateful, violation_record, h64

PROPERTY = "C17"
RULE = (
    "history (<=20 quick / <=50 thorough steps) over one root probe on fa(w as b0, !u as b1) (optionally with a "
    "second selector fb(!u)): {attach stage "
    "(accum, getitem, map, filter | count, sum, min, max, last, take_last), activate (with / values() / "
    "global, also from inside a running call, optionally with a second probe in the same frame), call <plan>, "
    "deactivate (normal / by an Exception / by a BaseException / deactivate(), through the probe or a handle "
    "derived from it), re-activation attempt, redundant second deactivation, "
    "deactivation from inside a running call, background probe on/off}. evaluations = operations applied. Non-trivial = >=1 stage attached "
    "mid-stream, >=1 reducing stage, and events both inside and outside the active period; distinct by "
    "history hash."
)
ASSUMPTIONS = [
    "deactivating while a strict reducer (min/max/last/sum) has seen no event raises by giving's contract: the deactivation still takes effect; which other reducers published before the error is a don't-care, but no stage may receive anything afterwards",
    "a redundant second deactivation may raise or be ignored; it must not disturb anything (it is in the quantified operation set)",
]

SEL = G.CallN("fa", None, (G.Cap("w", "b0", None, None, "=", 0), G.Cap("u", "b1", None, None, "=", 1)), ())
SEL2 = G.CallN("fb", None, (G.Cap("u", "b1", None, None, "=", 1),), ())  # optional second selector of the root probe
BG = G.CallN("fa", None, (G.Cap("u", "z0", None, None, "=", 1),), ())
BG2 = G.CallN("fa", None, (G.Cap("w", "y0", None, None, "=", 1),), ())  # activated in the same frame as the root probe

NONRED = ["accum", "getitem", "map", "filter"]
RED = ["count", "sum", "min", "max", "last", "take_last"]
STRICT = {"min", "max", "last", "sum"}


def build_stage(probe, kind):
    if kind == "accum":
        return probe.accum()
    s = probe["b1"]
    if kind == "getitem":
        return s.accum()
    if kind == "map":
        return s.map(lambda v: v * 2 + 1).accum()
    if kind == "filter":
        return s.filter(lambda v: v % 2 == 1).accum()
    if kind == "count":
        return s.count().accum()
    if kind == "sum":
        return s.sum().accum()
    if kind == "min":
        return s.min().accum()
    if kind == "max":
        return s.max().accum()
    if kind == "last":
        return s.last().accum()
    if kind == "take_last":
        return s.take_last(2).accum()
    raise ValueError(kind)


def ref_stage(kind, events, completed):
    vals = [e["b1"] for e in events]
    if kind == "accum":
        return list(events)
    if kind == "getitem":
        return vals
    if kind == "map":
        return [v * 2 + 1 for v in vals]
    if kind == "filter":
        return [v for v in vals if v % 2 == 1]
    if not completed:
        return []
    if kind == "count":
        return [len(vals)]
    if kind == "sum":
        return [sum(vals)]
    if kind == "min":
        return [min(vals)]
    if kind == "max":
        return [max(vals)]
    if kind == "last":
        return [vals[-1]]
    if kind == "take_last":
        return vals[-2:]
    raise ValueError(kind)


class Halt(BaseException):
    """Leaves a with-block like KeyboardInterrupt / SystemExit / GeneratorExit would."""


class Sim:
    def __init__(self):
        from ptera.probe import Probe

        F.DISPATCH.update(F.RAW)
        self.env = dict(F.RAW)
        self.states = {k: HY.FnState(f) for k, f in F.RAW.items()}
        self.probe = Probe(G.canonical(SEL), env=self.env)
        self.phase = "new"  # new | active | done
        self.delivered = []
        self.sinks = []  # dicts kind, sink, start, live (attached before completion)
        self.history = []
        self.bg = None
        self.bg_sink = None
        self.bg_expected = []
        self.cm = None
        self.flags = set()
        self.how = None
        self.sels = [SEL]
        self.raised_completion = False
        self.bg2 = None
        self.bg2_sink = None
        self.bg2_expected = []
        self.bg_sel = BG

    def events_of(self, trace, before_t=None, after_t=None, sels=None):
        """Events of the root probe's selectors; before_t: the probe ends at that time;
        after_t: it starts at that time (activations entered earlier are not matched)."""
        timed = []
        within = None if after_t is None else (lambda t: t > after_t)
        for sel in (sels or self.sels):
            timed += [(t, g) for t, g in M.immediate_events(sel, trace, within=within, with_time=True)]
        timed.sort(key=lambda tg: tg[0])
        return [e for t, g in timed if before_t is None or t < before_t for e in g]

    def op_root(self, n):
        """Rebuild the root probe with n selectors (only as the very first operation)."""
        from ptera.probe import Probe

        if self.phase != "new" or self.sinks or n != 2:
            return
        self.sels = [SEL, SEL2]
        self.probe = Probe(G.canonical(SEL), G.canonical(SEL2), env=self.env)
        self.flags.add("two-selectors")

    def apply(self, op):
        self.history.append(op)
        getattr(self, "op_" + op[0])(*op[1:])
        self.check()

    # -- ops
    def op_stage(self, kind):
        sink = build_stage(self.probe, kind)
        self.sinks.append({"kind": kind, "sink": sink, "start": len(self.delivered), "live": self.phase != "done"})
        if self.phase == "active":
            self.flags.add("mid-attach")
        if kind in RED:
            self.flags.add("reducer")

    def op_activate(self, how):
        if self.phase != "new":
            return self.op_reactivate()
        try:
            if how == "with":
                self.probe.__enter__()
            elif how == "values":
                self.cm = self.probe.values()
                sink = self.cm.__enter__()
                self.sinks.append({"kind": "accum", "sink": sink, "start": len(self.delivered), "live": True})
            else:
                self.probe.activate()
        except BaseException as e:
            raise PropertyViolation("activate", f"activation ({how}) raised {HY.describe_exc(e)}")
        self.how = how
        self.phase = "active"

    def empty_strict(self):
        for s in self.sinks:
            if s["live"] and s["kind"] in STRICT and not self.delivered[s["start"]:]:
                return True
        return False

    def op_deactivate(self, by_exc, via="root"):
        """via='derived': through a handle derived from the probe (probe["b1"]), which must act on
        the probe itself."""
        if self.phase != "active":
            return
        expect_raise = self.empty_strict()
        handle = self.probe
        if via == "derived" and self.how != "values":
            handle = self.probe["b1"]
            self.flags.add("derived-handle")
        try:
            exc_cls = Halt if by_exc == "base" else F.Boom
            if self.how == "values":
                if by_exc:
                    self.cm.__exit__(exc_cls, exc_cls("x"), None)
                else:
                    self.cm.__exit__(None, None, None)
            elif self.how == "with":
                if by_exc:
                    handle.__exit__(exc_cls, exc_cls("x"), None)
                else:
                    handle.__exit__(None, None, None)
            else:
                handle.deactivate()
        except BaseException as e:
            if not (expect_raise and type(e).__name__ == "SequenceContainsNoElementsError"):
                raise PropertyViolation("deactivate", f"deactivation raised {HY.describe_exc(e)}",
                                        extra={"bucket": "deactivate:" + HY.exc_bucket(e)})
            # a strict reducer that saw nothing raises at completion (giving's contract): the
            # deactivation itself still happened; which of the other stages were completed
            # before the error is not stated - but none may ever receive another event
            self.raised_completion = True
            self.flags.add("completion-raised")
        self.phase = "done"
        for s in self.sinks:
            if s["live"]:
                s["completed"] = "maybe" if self.raised_completion else True

    def op_reactivate(self):
        before = self.snapshot()
        try:
            self.probe.__enter__()
        except BaseException as e:
            if not HY.is_deliberate(e):
                raise PropertyViolation("reactivate", f"second activation failed with an internal error {HY.describe_exc(e)}")
        else:
            raise PropertyViolation("reactivate", f"a second activation (phase={self.phase}) was accepted")
        after = self.snapshot()
        if before != after:
            raise PropertyViolation("reactivate", f"the refused second activation disturbed state: {before} -> {after}")
        self.flags.add("reactivate-" + self.phase)

    def op_redeactivate(self):
        """A redundant second deactivation may be refused (raise) or ignored, but it must not
        complete the stream again, touch the instrumentation or disturb other probes."""
        if self.phase != "done":
            return
        before = self.snapshot()
        try:
            if self.how == "global":
                self.probe.deactivate()
            else:
                self.probe.__exit__(None, None, None)
        except BaseException:
            pass
        after = self.snapshot()
        # stages attached only after the first deactivation may receive the completion of their
        # (empty) stream now - exactly one result computed from no events; everything else
        # (instrumentation, handlers, stages that were already completed) must be unchanged
        live = [i for i, s_ in enumerate(self.sinks) if s_["live"]]
        b = before[:3] + (tuple(before[3][i] for i in live),)
        a = after[:3] + (tuple(after[3][i] for i in live),)
        if b != a:
            raise PropertyViolation("redeactivate", f"a redundant second deactivation disturbed state: {before} -> {after}")
        for s_ in self.sinks:
            if not s_["live"] and list(s_["sink"]):
                s_["late_completed"] = True
        self.flags.add("redeactivate")

    def op_bg(self, on):
        from ptera.probe import Probe

        if on and self.bg is None:
            # on == "same": an independent probe built from the very text of the root probe's
            # first selector
            self.bg_sel = SEL if on == "same" else BG
            if on == "same":
                self.flags.add("bg-same-selector")
            self.bg = Probe(G.canonical(self.bg_sel), env=self.env)
            self.bg_sink = self.bg.accum()
            self.bg_expected = []
            self.bg.__enter__()
            self.flags.add("bg")
        elif not on and self.bg is not None:
            self.bg.__exit__(None, None, None)
            self.bg = None
        elif not on and self.bg2 is not None:
            self.bg2.__exit__(None, None, None)
            self.bg2 = None

    def op_incall(self, roots, k, by_exc, late_stage=False):
        """A call during which the probe is deactivated from *inside* the k-th activation (before
        that activation's later bindings): the frames that are still running stay instrumented,
        but nothing they bind afterwards may reach the pipeline."""
        if self.phase != "active":
            return self.op_call(roots)
        roots = copy.deepcopy(roots)
        nodes = []

        def walk(n):
            nodes.append(n)
            for c in n["pre"] + n["post"]:
                walk(c)

        for r in roots:
            walk(r)
        host = nodes[k % len(nodes)]
        cb = {"id": 990, "fn": "cb", "u0": 9901, "w0": 9905, "ru": None, "rw": None, "pre": [], "post": [],
              "via": False, "catch": False, "raises": False, "ret": 9909}
        host["pre"].insert(0, cb)
        trace = M.simulate(roots)
        # (the host may never run: an earlier activation raised)
        t_cb = next((b.t for b in trace.binds if b.act.fn == "cb"), None)
        ev = self.events_of(trace, before_t=t_cb)
        self.delivered.extend(ev)
        if ev:
            self.flags.add("events-inside")
        if len(self.events_of(trace)) > len(ev):
            self.flags.add("events-outside")
            self.flags.add("frames-outlive-deactivation")
        if self.bg is not None:
            self.bg_expected.extend(e for g in M.immediate_events(self.bg_sel, trace) for e in g)
        if self.bg2 is not None:
            self.bg2_expected.extend(e for g in M.immediate_events(BG2, trace) for e in g)
        err = []

        def cb_fn(node):
            try:
                self.op_deactivate(by_exc)
                if late_stage and self.phase == "done":
                    # attached right after the deactivation, while activations of the probed
                    # function are still running: must stay empty
                    self.op_stage("accum")
                    self.flags.add("stage-attached-while-frames-survive")
            except BaseException as e:  # noqa
                err.append(e)
            return node["ret"]

        F.DISPATCH["cb"] = cb_fn
        try:
            F.drive(roots)
        finally:
            F.DISPATCH.pop("cb", None)
        if err:
            raise err[0]

    def op_incall_act(self, roots, k, how, with_bg):
        """The probe (and optionally the background probe right after it, in the same frame) is
        activated from *inside* the k-th activation of a call: it hears the activations entered
        from then on, during this call and after it returned."""
        if self.phase != "new" or how == "values":
            return self.op_call(roots)
        roots = copy.deepcopy(roots)
        nodes = []

        def walk(n):
            nodes.append(n)
            for c in n["pre"] + n["post"]:
                walk(c)

        for r in roots:
            walk(r)
        host = nodes[k % len(nodes)]
        cb = {"id": 991, "fn": "cb", "u0": 9911, "w0": 9915, "ru": None, "rw": None, "pre": [], "post": [],
              "via": False, "catch": False, "raises": False, "ret": 9919}
        host["pre"].insert(0, cb)
        trace = M.simulate(roots)
        t_cb = next((b.t for b in trace.binds if b.act.fn == "cb"), None)
        bg_was_on = self.bg is not None
        if t_cb is None:
            if self.events_of(trace):
                self.flags.add("events-outside")
        else:
            ev = self.events_of(trace, after_t=t_cb)
            self.delivered.extend(ev)
            if ev:
                self.flags.add("events-inside")
            self.flags.add("activated-inside-call")
        if bg_was_on:
            self.bg_expected.extend(e for g in M.immediate_events(self.bg_sel, trace) for e in g)
        bg_new = with_bg and self.bg2 is None and t_cb is not None
        if bg_new:
            self.bg2_expected = self.events_of(trace, after_t=t_cb, sels=[BG2])
        elif self.bg2 is not None:
            self.bg2_expected.extend(self.events_of(trace, sels=[BG2]))
        err = []

        def cb_fn(node):
            from ptera.probe import Probe

            try:
                self.op_activate(how)
                if bg_new:
                    # a second activation in the very same frame
                    self.bg2 = Probe(G.canonical(BG2), env=self.env)
                    self.bg2_sink = self.bg2.accum()
                    self.bg2.__enter__()
                    self.flags.add("two-activations-in-one-frame")
            except BaseException as e:  # noqa
                err.append(e)
            return node["ret"]

        F.DISPATCH["cb"] = cb_fn
        try:
            F.drive(roots)
        finally:
            F.DISPATCH.pop("cb", None)
        if err:
            raise err[0]

    def op_incall_both(self, roots, k):
        """The probe is activated and deactivated again from inside the k-th activation of one and
        the same call: nothing is delivered, and nothing of it may be left behind when the
        enclosing calls return."""
        if self.phase != "new":
            return self.op_call(roots)
        roots = copy.deepcopy(roots)
        nodes = []

        def walk(n):
            nodes.append(n)
            for c in n["pre"] + n["post"]:
                walk(c)

        for r in roots:
            walk(r)
        host = nodes[k % len(nodes)]
        host["pre"].insert(0, {"id": 992, "fn": "cb", "u0": 9921, "w0": 9925, "ru": None, "rw": None, "pre": [],
                               "post": [], "via": False, "catch": False, "raises": False, "ret": 9929})
        trace = M.simulate(roots)
        reached = any(b.act.fn == "cb" for b in trace.binds)
        if self.bg is not None:
            self.bg_expected.extend(e for g in M.immediate_events(self.bg_sel, trace) for e in g)
        if self.bg2 is not None:
            self.bg2_expected.extend(e for g in M.immediate_events(BG2, trace) for e in g)
        if self.events_of(trace):
            self.flags.add("events-outside")
        err = []

        def cb_fn(node):
            try:
                self.op_activate("with")
                self.op_deactivate(False)
                self.flags.add("activated-and-deactivated-inside-one-call")
            except BaseException as e:  # noqa
                err.append(e)
            return node["ret"]

        F.DISPATCH["cb"] = cb_fn
        try:
            F.drive(roots)
        finally:
            F.DISPATCH.pop("cb", None)
        if err:
            raise err[0]
        assert reached == (self.phase == "done")

    def op_call(self, roots):
        trace = M.simulate(roots)
        ev = self.events_of(trace)
        if self.phase == "active":
            self.delivered.extend(ev)
            if ev:
                self.flags.add("events-inside")
        elif ev:
            self.flags.add("events-outside")
        if self.bg is not None:
            self.bg_expected.extend(e for g in M.immediate_events(self.bg_sel, trace) for e in g)
        if self.bg2 is not None:
            self.bg2_expected.extend(e for g in M.immediate_events(BG2, trace) for e in g)
        F.drive(copy.deepcopy(roots))

    # -- invariants
    def snapshot(self):
        st = self.states["fa"]
        stack = getattr(st.fn, "__ptera_stack__", None)
        return (
            id(st.fn.__code__),
            getattr(stack, "instrument_count", 0) if stack is not None else 0,
            tuple(sorted(id(a) for _, a in HY.handlers_installed())),
            tuple(len(s["sink"]) for s in self.sinks),
        )

    def check(self):
        for i, s in enumerate(self.sinks):
            evs = self.delivered[s["start"]:] if s["live"] else []
            got = list(s["sink"])
            if s.get("completed") == "maybe" and s["kind"] in RED:
                # completion interrupted by a raising reducer: published its one result, or nothing
                strict_empty = s["kind"] in STRICT and not evs
                ok = got == [] or (not strict_empty and got == ref_stage(s["kind"], evs, True))
                if not ok:
                    raise PropertyViolation(
                        "sink", f"stage #{i} {s['kind']} after a deactivation whose completion raised: got {got!r}, "
                                f"expected [] or the single result over {evs!r}")
                continue
            want = ref_stage(s["kind"], evs, s.get("completed", False) or s.get("late_completed", False))
            if got != want:
                raise PropertyViolation(
                    "sink",
                    f"stage #{i} {s['kind']} (attached at event {s['start']}, phase={self.phase}): "
                    f"expected {want!r}, got {got!r}",
                )
        if self.bg_sink is not None and list(self.bg_sink) != self.bg_expected:
            raise PropertyViolation("background", f"background probe expected {self.bg_expected!r}, got {list(self.bg_sink)!r}")
        if self.bg2_sink is not None and list(self.bg2_sink) != self.bg2_expected:
            raise PropertyViolation("background", f"the probe activated in the same frame as the root probe expected "
                                                  f"{self.bg2_expected!r}, got {list(self.bg2_sink)!r}")
        active = (1 if self.phase == "active" else 0) + (1 if self.bg is not None else 0) + (1 if self.bg2 is not None else 0)
        st = self.states["fa"]
        if active == 0:
            probs = st.is_clean() + HY.global_state_problems()
            if probs:
                raise PropertyViolation("residue", f"nothing active (phase={self.phase}) but {probs}")
        want_ids = []
        if self.phase == "active":
            want_ids += [id(h) for h in self.probe._ol.handlers]
        if self.bg is not None:
            want_ids += [id(h) for h in self.bg._ol.handlers]
        if self.bg2 is not None:
            want_ids += [id(h) for h in self.bg2._ol.handlers]
        have = sorted(id(a) for _, a in HY.handlers_installed())
        if sorted(want_ids) != have:
            raise PropertyViolation("handlers", f"{len(have)} handlers installed, expected {len(want_ids)} (phase={self.phase}, bg={self.bg is not None})")

    def cleanup(self):
        try:
            if self.phase == "active":
                self.phase = "done"
                if self.how == "values":
                    self.cm.__exit__(None, None, None)
                else:
                    self.probe.__exit__(None, None, None)
        except BaseException:
            pass
        try:
            if self.bg is not None:
                self.bg.__exit__(None, None, None)
        except BaseException:
            pass
        try:
            if self.bg2 is not None:
                self.bg2.__exit__(None, None, None)
        except BaseException:
            pass
        self.cm = None
        for st in self.states.values():
            if st.is_clean():
                st.force_clean()
        HY.force_global_clean()


def run_history(ops):
    sim = Sim()
    try:
        for op in ops:
            sim.apply(tuple(op))
    finally:
        sim.cleanup()


def replay(payload):
    try:
        run_history(payload["history"])
    except PropertyViolation as v:
        return [{"clause": v.clause, "detail": v.detail}]
    return []


def make_machine(rec):
    from hypothesis import strategies as st
    from hypothesis.stateful import RuleBasedStateMachine, rule, precondition
    from vlib import treegen as T
    import time

    plans = T.plan_strategy(max_nodes=5, max_depth=3, fns=["fa", "fa", "fb"])

    class Machine(RuleBasedStateMachine):
        _t0 = None
        _budget = 60.0
        _best = None

        def __init__(self):
            super().__init__()
            self.sim = Sim()
            self.dead = False

        def _do(self, op):
            cls = type(self)
            if self.dead or (cls._t0 is not None and time.monotonic() - cls._t0 > cls._budget):
                return
            try:
                from vlib.core import cpu_guard, CaseHang

                try:
                    with cpu_guard(30.0):
                        self.sim.apply(op)
                except CaseHang as h:
                    raise PropertyViolation("hang", f"operation {op[0]} did not finish: {h}", extra={"bucket": "hang"})
            except PropertyViolation as v:
                self.dead = True
                v.case = list(self.sim.history)
                if cls._t0 is None:
                    cls._t0 = time.monotonic()
                if cls._best is None or len(repr(v.case)) <= len(repr(cls._best.case)):
                    cls._best = v
                raise
            rec.evaluations += 1

        @rule(kind=st.sampled_from(NONRED + RED))
        def stage(self, kind):
            self._do(("stage", kind))

        @rule(how=st.sampled_from(["with", "values", "global"]))
        def activate(self, how):
            self._do(("activate", how))

        @precondition(lambda self: self.sim.phase == "active")
        @rule(by_exc=st.sampled_from([False, True, "base"]), via=st.sampled_from(["root", "root", "derived"]))
        def deactivate(self, by_exc, via):
            self._do(("deactivate", by_exc, via))

        @precondition(lambda self: self.sim.phase == "new")
        @rule(roots=plans, k=st.integers(0, 5))
        def incall_both(self, roots, k):
            self._do(("incall_both", roots, k))

        @precondition(lambda self: self.sim.phase == "new")
        @rule(roots=plans, k=st.integers(0, 5), how=st.sampled_from(["with", "global"]), with_bg=st.booleans())
        def incall_act(self, roots, k, how, with_bg):
            self._do(("incall_act", roots, k, how, with_bg))

        @precondition(lambda self: self.sim.phase != "new")
        @rule()
        def reactivate(self):
            self._do(("reactivate",))

        @precondition(lambda self: self.sim.phase == "done")
        @rule()
        def redeactivate(self):
            self._do(("redeactivate",))

        @rule(on=st.sampled_from([True, False, "same"]))
        def bg(self, on):
            self._do(("bg", on))

        @rule(roots=plans)
        def call(self, roots):
            self._do(("call", roots))

        @precondition(lambda self: self.sim.phase == "new" and not self.sim.sinks and not self.sim.history)
        @rule()
        def two_selectors(self):
            self._do(("root", 2))

        @precondition(lambda self: self.sim.phase == "active")
        @rule(roots=plans, k=st.integers(0, 5), by_exc=st.booleans(), late=st.booleans())
        def incall(self, roots, k, by_exc, late):
            self._do(("incall", roots, k, by_exc, late))

        def teardown(self):
            sim = self.sim
            if not self.dead:
                fl = sim.flags
                nt = "mid-attach" in fl and "reducer" in fl and "events-inside" in fl and "events-outside" in fl
                rec.case(h64(repr(sim.history)), nt, fl | {"phase-end:" + sim.phase},
                         sample=lambda: {"history": [_brief(o) for o in sim.history]})
                rec.evaluations -= 1
            sim.cleanup()

    return Machine


def _brief(op):
    from vlib import treegen as T

    if op[0] == "call":
        return ["call", T.plan_brief(op[1])]
    if op[0] == "incall":
        return ["incall", T.plan_brief(op[1]), op[2], op[3]]
    if op[0] == "incall_both":
        return ["incall_both", T.plan_brief(op[1]), op[2]]
    if op[0] == "incall_act":
        return ["incall_act", T.plan_brief(op[1]), op[2], op[3], op[4]]
    return list(op)


def plan(tier, seed, scale):
    if tier == "quick":
        return [{"examples": int(300 * scale), "steps": 20} for _ in range(16)]
    return [{"examples": int(1000 * scale), "steps": 20 if i % 2 else 50} for i in range(32)]


def shard(cfg):
    rec = Recorder()
    Machine = make_machine(rec)
    v, herr = hyp_stateful(Machine, seed=cfg["seed"] * 1000 + cfg["shard"], max_examples=cfg["examples"],
                           step_count=cfg["steps"])
    res = rec.result()
    if v is not None:
        res["violations"] = [violation_record(PROPERTY, v, {"history": [list(o) for o in v.case]})]
    if herr:
        res["harness_errors"] = [herr]
    return res
