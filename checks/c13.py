"""C13 - method selectors bind to the right function and the right receiver.

Domain: a generated population of instances over classes (plain, subclass inheriting the
method, value-equal-and-hashable, value-equal-and-unhashable), a receiver parameter named
`self` or `me`, access paths (Cls.meth, obj.meth, decorated with functools.wraps, property,
dotted holder.inner.obj.meth, nested under a plain function sweep > obj.meth), a same-named
module-level function, and a generated call sequence.

Oracle (identity model): a class selector yields one event per call of that method on any
instance, in order; an object selector exactly the calls whose receiver *is* that object,
and the event carries that receiver; the same-named plain function produces no event and is
unaffected.
"""

import sys

from vlib import hygiene as HY
from vlib import prorun as PR
from vlib.core import PropertyViolation, Recorder, hyp_search, violation_record, h64

PROPERTY = "C13"
RULE = (
    "case = population of 2-5 instances over {Base, Sub(Base), EqAll (== always true, hashable), EqNoHash (== "
    "always true, unhashable), Falsy (len 0), FalsyList (empty list subclass)} x receiver name (self/me) x selector (class / object / dotted path / nested under "
    "sweep) on method kind (plain, functools.wraps-decorated, property, property over a decorated getter) x focus (w body variable, v parameter) x "
    "call sequence incl. the same-named plain function; plus a method re-entered on the next receiver before its own "
    "focus is bound (root / nested / class selectors), a method that stores into its receiver by subscript, an "
    "overriding method that mentions super(), and selectors written without env inside a helper whose "
    "caller has clashing local names. Non-trivial = the population has two distinct-but-equal "
    "or an unhashable instance, and both probed and non-probed receivers are called; distinct by case."
)
ASSUMPTIONS = [
    "focus is a variable (w, v); #enter fires before the receiver is bound and is not generated",
    "chains of two object selectors (implicit receiver captures would clash by name) are outside the domain",
]

TEMPLATE = '''
import functools


def deco(fn):
    @functools.wraps(fn)
    def wrapper(*a, **k):
        return fn(*a, **k)

    return wrapper


class Base:
    def __init__(self, k):
        self.k = k
        self.__k = k  # a private (name-mangled) attribute: _Base__k
        self.__seen = []

    def meth(RECV, v):
        RECV.__seen.append(v)  # a private name underneath another attribute access
        w = v + RECV.__k
        return w

    @deco
    def dmeth(RECV, v):
        w = v * 2 + RECV.k
        return w

    def __setitem__(self, key, value):
        self.__dict__.setdefault("items_", {})[key] = value

    def smeth(RECV, v):
        # stores into the receiver by subscript before the focus variable is set
        RECV[0] = v
        w = v + RECV.k + 900
        return w

    def relay(RECV, others, v):
        # re-entered on the next receiver *before* this call's own w is assigned
        if others:
            r = others[0].relay(others[1:], v + 1)
        else:
            r = 0
        w = v + RECV.k + r
        return w

    @property
    def prop(RECV):
        w = RECV.k + 100
        return w

    @property
    @deco
    def dprop(RECV):
        w = RECV.k + 200
        return w

    def __repr__(self):
        return f"<{type(self).__name__} k={self.k}>"


class Sub(Base):
    pass


class Over(Base):
    def meth(RECV, v):
        # an overriding method that mentions super(): a closure (over __class__)
        parent = super()
        w = v + RECV.k + 500
        return w


class EqAll(Base):
    def __eq__(self, other):
        return True

    def __hash__(self):
        return 1


class EqNoHash(Base):
    def __eq__(self, other):
        return True


class Falsy(Base):
    def __len__(self):
        return 0


class FalsyList(list):
    k = 0

    def __init__(self, k):
        super().__init__()
        self.k = k
        self._Base__k = k
        self._Base__seen = []

    meth = Base.meth
    smeth = Base.smeth
    __setitem__ = Base.__setitem__
    relay = Base.relay
    dmeth = Base.dmeth
    prop = Base.prop
    dprop = Base.dprop


def meth(v):
    w = v - 1
    return w


def sweep(objs, v):
    out = []
    for o in objs:
        out.append(o.meth(v))
    return out


def walk(objs, v):
    return objs[0].relay(objs[1:], v)


class Holder:
    pass


def probe_here(text):
    # the selector is *written here*: its names resolve against this frame's locals, then the
    # module globals (gobj, meth), never against the locals of whoever called this function
    from ptera import probing

    return probing(text)


def caller_with_clash(text, clash):
    gobj = clash
    meth = clash.meth
    return probe_here(text)


def probe_local(text, mine):
    # the selector is written in a scope whose own local `gobj` hides the module global of that
    # name: the local one is meant, as it would be for any expression written here
    from ptera import probing

    gobj = mine
    return probing(text)
'''

CLASSES = ["Base", "Sub", "EqAll", "EqNoHash", "Falsy", "FalsyList", "Over"]


def expected_w(kind, k, v, cls=None):
    if cls == "Over" and kind == "meth":
        return v + k + 500
    return {"meth": v + k, "dmeth": v * 2 + k, "prop": k + 100, "dprop": k + 200, "smeth": v + k + 900}[kind]


def check_case(recv, pop, calls, sel, rec=None):
    """sel may carry a 5th element: the index of a second object probed AFTER the first probe has
    ended (same method, same process): every object selector must bind to its own receiver."""
    if len(sel) > 4 and sel[4] is not None and sel[0] == "object":
        _check_one(recv, pop, calls, sel[:4], None, prelude=None)
        return _check_one(recv, pop, calls, (sel[0], sel[4], sel[2], sel[3]), rec, prelude=sel[1])
    return _check_one(recv, pop, calls, sel[:4], rec, prelude=None)


def _check_one(recv, pop, calls, sel, rec=None, prelude=None):
    """pop: [(classname, k)]; calls: [("m", i, kind, v) | ("plain", v) | ("sweep", v)];
    sel: (path, target index or None, method kind, focus)."""
    from ptera import probing

    src = TEMPLATE.replace("RECV", recv)
    _, glb = PR.load(src, name="meth")
    objs = [glb[c](k) for c, k in pop]
    path, ti, kind, focus = sel
    if prelude is not None:
        # a first probe on another object of the population, already ended
        from ptera import probing as _p

        with _p(f"o{prelude}.{kind} > {focus}", env={f"o{prelude}": objs[prelude]}):
            pass
    env = {"Base": glb["Base"], "Sub": glb["Sub"], "meth": glb["meth"], "sweep": glb["sweep"]}
    for i, o in enumerate(objs):
        env[f"o{i}"] = o
    holder = glb["Holder"]()
    holder.inner = glb["Holder"]()
    if ti is not None:
        holder.inner.obj = objs[ti]
    env["holder"] = holder
    cls_of = lambda i: pop[i][0]  # noqa
    if path == "class":
        text = f"Base.{kind} > {focus}"
    elif path == "subclass":
        text = f"Sub.{kind} > {focus}"
    elif path == "overclass":
        text = f"Over.meth > {focus}"
        env["Over"] = glb["Over"]
    elif path == "object":
        text = f"o{ti}.{kind} > {focus}"
    elif path == "dotted":
        text = f"holder.inner.obj.{kind} > {focus}"
    elif path == "nested":
        text = f"sweep > o{ti}.meth > {focus}"
    elif path == "relay":
        text = f"o{ti}.relay > {focus}"
    elif path == "relay-nested":
        text = f"walk > o{ti}.relay > {focus}"
        env["walk"] = glb["walk"]
    elif path == "relay-class":
        text = f"Base.relay > {focus}"
    elif path == "implicit":
        text = f"gobj.{kind} > {focus}"
        glb["gobj"] = objs[ti]
    elif path == "implicit-plain":
        text = f"meth > {focus}"
    else:
        raise ValueError(path)
    by_object = path in ("object", "dotted", "nested", "relay", "relay-nested", "implicit")
    relay = path.startswith("relay")
    # ---- model
    want = []  # (value of focus, receiver index)
    results_want = []
    for c in calls:
        if c[0] == "m":
            _, i, ck, v = c
            k = pop[i][1]
            results_want.append(expected_w(ck, k, v, cls_of(i)))
            # Over.meth is a function of its own: class selectors on Base/Sub do not name it,
            # and the selector on Over.meth names nothing else
            own_fn = cls_of(i) == "Over" and ck == "meth"
            named = (path == "overclass") == own_fn if not by_object else True
            if ck == kind and path != "nested" and not relay and path != "implicit-plain" and named:
                if not by_object or i == ti:
                    want.append((expected_w(ck, k, v, cls_of(i)) if focus == "w" else v, i))
        elif c[0] == "plain":
            results_want.append(c[1] - 1)
            if path == "implicit-plain":
                want.append((c[1] - 1 if focus == "w" else c[1], None))
        elif c[0] == "walk":
            v = c[1]
            ws = [0] * (len(pop) + 1)
            for i in range(len(pop) - 1, -1, -1):
                ws[i] = (v + i) + pop[i][1] + ws[i + 1]
            results_want.append(ws[0])
            if relay:
                # v is bound on the way in (outermost first), w on the way out (innermost first)
                order = range(len(pop)) if focus == "v" else range(len(pop) - 1, -1, -1)
                for i in order:
                    if path == "relay-class" or i == ti:
                        want.append((ws[i] if focus == "w" else v + i, i))
        else:
            v = c[1]
            results_want.append([expected_w("meth", k, v, c_) for c_, k in pop])
            if kind == "meth" and not relay and path != "implicit-plain":
                for i, (c_, k) in enumerate(pop):
                    wv = expected_w("meth", k, v, c_)
                    if path == "nested":
                        if i == ti:
                            want.append((wv if focus == "w" else v, i))
                    elif by_object:
                        if i == ti:
                            want.append((wv if focus == "w" else v, i))
                    elif (path == "overclass") == (c_ == "Over"):
                        want.append((wv if focus == "w" else v, i))
    # ---- ptera
    got = []
    results = []
    ctxt = f"receiver name {recv!r}, population {pop}, selector {text!r}, calls {calls}"
    module_level = {n: glb[n] for n in ("meth", "sweep", "walk", "Base", "Over")}
    try:
        if path.startswith("implicit"):
            # no env: the names are looked up where the selector is written (a helper called
            # from a function whose own locals gobj / meth are bound to something else)
            other = objs[(ti + 1) % len(objs)]
            if path == "implicit" and (ti + len(calls)) % 2:
                glb["gobj"] = other
                pr = glb["probe_local"](text, objs[ti])
            else:
                pr = glb["caller_with_clash"](text, other)
        else:
            pr = probing(text, env=env)
        with pr as p:
            p.subscribe(lambda d: got.append(d))
            for c in calls:
                if c[0] == "m":
                    _, i, ck, v = c
                    if ck in ("prop", "dprop"):
                        results.append(getattr(objs[i], ck))
                    else:
                        results.append(getattr(objs[i], ck)(v))
                elif c[0] == "plain":
                    results.append(glb["meth"](c[1]))
                elif c[0] == "walk":
                    results.append(glb["walk"](objs, c[1]))
                else:
                    results.append(glb["sweep"](objs, c[1]))
    except BaseException as e:
        if isinstance(e, (KeyboardInterrupt, SystemExit)):
            raise
        HY.force_global_clean()
        raise PropertyViolation("run", f"raised {HY.describe_exc(e)}\n{ctxt}", extra={"bucket": "run:" + HY.exc_bucket(e)})
    finally:
        if HY.global_state_problems():
            HY.force_global_clean()
        PR.forget(glb)
    changed = [n for n, v in module_level.items() if glb.get(n) is not v]
    if changed:
        raise PropertyViolation(
            "plain-function", f"probing the method changed the module-level names {changed} (now "
                              f"{[glb.get(n) for n in changed]!r})\n{ctxt}", extra={"bucket": "module-names"})
    if results != results_want:
        raise PropertyViolation("results", f"return values {results}, expected {results_want}\n{ctxt}")
    got_vals = [d.get(focus) for d in got]
    if got_vals != [w for w, _ in want]:
        raise PropertyViolation(
            "events", f"events {got_vals}, expected {[w for w, _ in want]} (receivers {[i for _, i in want]})\n{ctxt}",
            extra={"bucket": "events:" + ("extra" if len(got_vals) > len(want) else "missing" if len(got_vals) < len(want) else "value")})
    if by_object:
        for d, (w, i) in zip(got, want):
            if recv not in d or d[recv] is not objs[i]:
                raise PropertyViolation("receiver", f"event {d} does not carry the receiver object o{i}\n{ctxt}")
    if rec is not None:
        classes = {c for c, _ in pop}
        tricky = ("EqAll" in classes and sum(1 for c, _ in pop if c == "EqAll") >= 2) or bool(
            classes & {"EqNoHash", "Falsy", "FalsyList"})
        called = {c[1] for c in calls if c[0] == "m"} | (set(range(len(pop))) if any(c[0] == "sweep" for c in calls) else set())
        both = by_object and ti in called and len(called - {ti}) >= 1
        feats = {"path:" + path, "kind:" + kind, "recv:" + recv, "focus:" + focus}
        if tricky:
            feats.add("equal-or-unhashable")
        if prelude is not None:
            feats.add("second-object-probe")
        rec.case(h64(repr((recv, pop, calls, sel, prelude))), bool(tricky and (both or not by_object)), feats,
                 sample=lambda: {"population": pop, "selector": text, "calls": calls[:6], "events": want[:6]})


PRIVATE_SRC = '''
class Outer:
    class Inner:
        def __init__(self, k):
            self.__n = k

        def im(self, v):
            w = v + self.__n
            return w

    def __init__(self, k):
        self.__m = k
        self.inner = Outer.Inner(k + 1)

    def om(self, v):
        def helper(z):
            w = z + self.__m
            return w

        self.last = helper
        w = helper(v) + 1
        return w
'''


def check_private(target, k, v, rec=None, cname="Outer"):
    """Private (name-mangled) attributes in a method of a nested class, in a method defining a
    helper, and in that helper (a function nested in a method): probing must neither break the
    call nor miss the binding."""
    from ptera import probing

    # (the class name may start or end with underscores: Python strips only the leading ones
    # when it mangles a private name)
    _, glb = PR.load(PRIVATE_SRC.replace("Outer", cname).replace("Inner", "Inner" + cname[5:]), name=cname)
    o = glb[cname](k)
    o.om(0)
    if target == "inner":
        sel, env, call, want_w = f"{cname}.Inner{cname[5:]}.im > w", {cname: glb[cname]}, (lambda: o.inner.im(v)), v + k + 1
    elif target == "outer":
        sel, env, call, want_w = f"{cname}.om > w", {cname: glb[cname]}, (lambda: o.om(v)), v + k + 1
    else:
        sel, env, call, want_w = "h > w", {"h": o.last}, (lambda: o.last(v)), v + k
    got = []
    try:
        with probing(sel, env=env) as p:
            p.subscribe(lambda d: got.append(d["w"]))
            res = call()
    except BaseException as e:
        if isinstance(e, (KeyboardInterrupt, SystemExit)):
            raise
        HY.force_global_clean()
        raise PropertyViolation("run", f"private names, probing({sel!r}) with k={k} v={v}: raised {HY.describe_exc(e)}",
                                extra={"bucket": "private:" + HY.exc_bucket(e)})
    finally:
        if HY.global_state_problems():
            HY.force_global_clean()
        PR.forget(glb)
    if res != want_w or got != [want_w]:
        raise PropertyViolation("events", f"private names, probing({sel!r}) with k={k} v={v}: returned {res}, events "
                                          f"{got}; expected {want_w} and [{want_w}]")
    if rec is not None:
        rec.case(h64(repr(("private", target, k, v, cname))), True, {"path:private-" + target, "private-class:" + cname},
                 sample=lambda: {"selector": sel, "k": k, "v": v, "events": [want_w]})


FACTORY_SRC = '''
def make(base):
    class K:
        def __init__(self, k):
            self.k = k

        def read(self, v):
            w = v + self.k + base
            return w

    return K


def mkmeth(base):
    def read(self, v):
        w = v + self.k + base
        return w

    return read


class M1:
    def __init__(self, k):
        self.k = k
    read = mkmeth(100)


class M2:
    def __init__(self, k):
        self.k = k
    read = mkmeth(200)
'''


def check_factory(flavour, mode, calls, rec=None):
    """Two classes whose method comes from one and the same `def` (a class factory called twice,
    or a method factory): `A.read > w` and `B.read > w` are two different methods, each selector
    observes the calls on instances of its own class only.  `calls` = [(0|1, k, v)...];
    mode: 'nested' / 'nested-rev' two probes at once, 'one' one probe with both selectors, 'A' / 'B' one
    class probed while both are called."""
    from ptera import probing

    _, glb = PR.load(FACTORY_SRC, name="make")
    if flavour == "class-factory":
        A, B = glb["make"](100), glb["make"](200)
    else:
        A, B = glb["M1"], glb["M2"]
    env = {"A": A, "B": B}
    objs = {}
    want = {"A": [], "B": [], "res": []}
    for which, k, v in calls:
        objs.setdefault((which, k), (A, B)[which](k))
        w = v + k + (100, 200)[which]
        want["AB"[which]].append({"w": w, "self": (which, k)})
        want["res"].append(w)
    got = {"A": [], "B": [], "res": []}
    ident = {id(o): key for key, o in objs.items()}

    def sub(name):
        return lambda d: got[name].append({"w": d["w"], "self": ident.get(id(d.get("self")), "?")})

    def run():
        for which, k, v in calls:
            got["res"].append(objs[(which, k)].read(v))

    try:
        if mode in ("nested", "nested-rev"):
            first, second = ("A", "B") if mode == "nested" else ("B", "A")
            with probing(f"{first}.read(self) > w", env=env) as p1:
                p1.subscribe(sub(first))
                with probing(f"{second}.read(self) > w", env=env) as p2:
                    p2.subscribe(sub(second))
                    run()
        elif mode == "one":
            with probing("A.read(self) > w", "B.read(self) > w", env=env) as p:
                p.subscribe(lambda d: got["AB"[ident.get(id(d.get("self")), (0,))[0]]].append(
                    {"w": d["w"], "self": ident.get(id(d.get("self")), "?")}))
                run()
        else:
            with probing(f"{mode}.read(self) > w", env=env) as p:
                p.subscribe(sub(mode))
                run()
            want["AB".replace(mode, "")] = []
    except BaseException as e:
        if isinstance(e, (KeyboardInterrupt, SystemExit)):
            raise
        HY.force_global_clean()
        raise PropertyViolation("run", f"{flavour}, mode {mode}, calls {calls}: raised {HY.describe_exc(e)}",
                                extra={"bucket": "factory:" + HY.exc_bucket(e)})
    finally:
        if HY.global_state_problems():
            HY.force_global_clean()
        PR.forget(glb)
    if got != want:
        which = next(k for k in ("res", "A", "B") if got[k] != want[k])
        raise PropertyViolation(
            "events" if which != "res" else "result",
            f"two classes sharing one method definition ({flavour}), mode {mode}, calls (class, k, v) {calls}: "
            f"{'results' if which == 'res' else 'events of the selector through class ' + which} {got[which]}, expected {want[which]}")
    if rec is not None:
        both = len({c[0] for c in calls}) == 2
        rec.case(h64(repr(("factory", flavour, mode, calls))), both, {"path:factory-" + flavour, "factory-mode:" + mode},
                 sample=lambda: {"flavour": flavour, "mode": mode, "calls": calls[:6]})


def replay(payload):
    if payload.get("mode") == "factory":
        try:
            check_factory(payload["flavour"], payload["fmode"], [tuple(c) for c in payload["calls"]])
        except PropertyViolation as v:
            return [{"clause": v.clause, "detail": v.detail}]
        return []
    if payload.get("mode") == "private":
        try:
            check_private(payload["target"], payload["k"], payload["v"], cname=payload.get("cname", "Outer"))
        except PropertyViolation as v:
            return [{"clause": v.clause, "detail": v.detail}]
        return []
    try:
        check_case(payload["recv"], [tuple(p) for p in payload["pop"]], [tuple(c) for c in payload["calls"]],
                   tuple(payload["sel"]))
    except PropertyViolation as v:
        return [{"clause": v.clause, "detail": v.detail}]
    return []


def strategy():
    from hypothesis import strategies as st

    @st.composite
    def cases(draw):
        if draw(st.integers(0, 19)) == 1:
            return ("factory", draw(st.sampled_from(["class-factory", "method-factory"])),
                    draw(st.sampled_from(["nested", "nested-rev", "one", "A", "B"])),
                    draw(st.lists(st.tuples(st.integers(0, 1), st.integers(0, 2), st.integers(0, 5)), min_size=1, max_size=6)))
        if draw(st.integers(0, 19)) == 0:
            return ("private", draw(st.sampled_from(["inner", "outer", "helper"])), draw(st.integers(0, 5)),
                    draw(st.integers(0, 5)), draw(st.sampled_from(["Outer", "Outer_", "Outer__", "Outer"])))
        recv = draw(st.sampled_from(["self", "me"]))
        n = draw(st.integers(2, 5))
        pop = [(draw(st.sampled_from(CLASSES + ["EqAll", "EqNoHash", "EqAll"])), draw(st.integers(0, 3))) for _ in range(n)]
        path = draw(st.sampled_from(["class", "subclass", "object", "object", "dotted", "nested", "relay", "relay-nested",
                                     "relay-class", "implicit", "implicit-plain", "overclass"]))
        kind = draw(st.sampled_from(["meth", "meth", "dmeth", "prop", "dprop", "smeth"]))
        ti = draw(st.integers(0, n - 1))
        if path in ("object", "dotted") and kind in ("prop", "dprop"):
            kind = "meth"  # obj.prop would evaluate the property
        if path in ("nested", "implicit-plain", "overclass") or path.startswith("relay"):
            kind = "meth"
        if path == "implicit" and kind in ("prop", "dprop"):
            kind = "meth"
        focus = "w" if kind in ("prop", "dprop") else draw(st.sampled_from(["w", "w", "v"]))
        calls = []
        for _ in range(draw(st.integers(1, 8))):
            c = draw(st.integers(0, 9))
            if c == 0:
                calls.append(("plain", draw(st.integers(0, 5))))
            elif c == 1:
                calls.append(("sweep", draw(st.integers(0, 5))))
            elif c == 2 or (c < 6 and path.startswith("relay")):
                calls.append(("walk", draw(st.integers(0, 5))))
            elif c == 3 and path == "implicit-plain":
                calls.append(("plain", draw(st.integers(0, 5))))
            else:
                ck = kind if draw(st.integers(0, 2)) else draw(st.sampled_from(["meth", "dmeth", "prop", "dprop", "smeth"]))
                calls.append(("m", draw(st.integers(0, n - 1)), ck, draw(st.integers(0, 5))))
        second = draw(st.integers(0, n - 1)) if path == "object" and draw(st.booleans()) else None
        if second == ti:
            second = None
        return recv, pop, calls, (path, ti, kind, focus, second)

    return cases()


def plan(tier, seed, scale):
    if tier == "quick":
        return [{"examples": int(500 * scale)} for _ in range(16)]
    return [{"examples": int(8000 * scale)} for _ in range(32)]


def shard(cfg):
    sys.unraisablehook = lambda *a, **k: None
    rec = Recorder()

    def body(case):
        if case[0] == "private":
            return check_private(*case[1:4], rec=rec, cname=case[4])
        if case[0] == "factory":
            return check_factory(*case[1:], rec=rec)
        check_case(*case, rec=rec)

    n, v, herr = hyp_search(strategy(), body, seed=cfg["seed"] * 1000 + cfg["shard"], max_examples=cfg["examples"], case_cpu_s=30.0)
    res = rec.result()
    if v is not None and v.case[0] == "private":
        res["violations"] = [violation_record(PROPERTY, v, {"mode": "private", "target": v.case[1], "k": v.case[2],
                                                            "v": v.case[3], "cname": v.case[4]})]
    elif v is not None and v.case[0] == "factory":
        res["violations"] = [violation_record(PROPERTY, v, {"mode": "factory", "flavour": v.case[1], "fmode": v.case[2],
                                                            "calls": [list(c) for c in v.case[3]]})]
    elif v is not None:
        recv, pop, calls, sel = v.case
        res["violations"] = [violation_record(PROPERTY, v, {"recv": recv, "pop": pop, "calls": calls, "sel": list(sel)})]
    if herr:
        res["harness_errors"] = [herr]
    return res
