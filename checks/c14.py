"""C14 - absolute references keep resolving to the same function across probing.

Generated *modules* (real files in a per-shard temporary package directory, removed at the end:
codefind resolves through importlib and __file__) place functions at module level, as methods
of nested classes, inside other functions (one live instance per def), two functions deep, and
behind a functools.wraps decorator.  A generated history of {activate by name, activate by
reference, deactivate (LIFO), call, resolve reference} is applied to ptera and to a model.

Oracle: refstring(fn) exists; select(ref + " > a") resolves to the very function object created
by that def - before, during and after probes; every active probe on a function (by name or
by reference) receives exactly one event per call of it, so streams obtained through the
reference equal those obtained through the name at every point of the history.

codefind switches between a gc scan and its cache depending on how long the previous scan
took (wall clock); the check pins that regime explicitly as one more generated bit.
"""

import importlib
import os
import gc
import shutil
import sys
import tempfile

from vlib import hygiene as HY
from vlib.core import PropertyViolation, Recorder, hyp_search, violation_record, h64

PROPERTY = "C14"
RULE = (
    "case = generated module (placement blocks in generated order with generated constants: module-level "
    "function, method of a nested class, method, function inside a function, function two functions deep, "
    "decorated function, a method and a nested function sharing their bare names with module-level functions, a "
    "closure referring to itself, closures whose only instance is created by the history (factory at module "
    "level / a method / itself a closure), a function under two stacked decorators) x history (<=15 quick / <=40 thorough ops, plus in a quarter of the cases an inserted burst `two probes on one target at once, then a call` or `probe a nested function, probe its enclosing function, resolve and call the nested one`) of {activate probe by name | by reference, "
    "activate a path probe in which the target is only the enclosing call, deactivate innermost, call, resolve "
    "reference, create the lazy closure instance, execute the unchanged module again (only while no probe is active)} x codefind lookup regime (gc scan / cache). evaluations = "
    "operations applied. Non-trivial = a resolve or an activation by reference happens while >=1 other probe on "
    "the same function is active; distinct by (module text, history, regime)."
)
ASSUMPTIONS = [
    "one live function object per def (a precondition for a reference to be unique)",
    "the codefind regime is pinned (last_cost / always_use_cache) instead of being left to timing",
]

BLOCKS = {
    "top": '''
def top(x):
    a = x + {K}
    return a
''',
    "meth": '''
class Outer:
    class Inner:
        def meth(self, x):
            a = x + {K}
            return a

    def om(self, x):
        a = x + {K2}
        return a
''',
    "inner": '''
def maker():
    a = 0

    def inner(x):
        a = x + {K}
        return a

    return inner


inner = maker()
''',
    "leaf": '''
def deep():
    a = 0

    def mid():
        def leaf(x):
            a = x + {K}
            return a

        return leaf

    return mid()


leaf = deep()
''',
    "coll": '''
class Coll:
    def top(self, x):
        a = x + {K}
        return a


def holder():
    def dec(x):
        a = x + {K2}
        return a

    return dec


hdec = holder()
''',
    "rfun": '''
def rmaker():
    def rfun(x):
        a = x + {K}
        if x < 0:
            return rfun(0)  # the closure refers to itself
        return a

    return rfun


rfun = rmaker()
''',
    "lfun": '''
def lmaker():
    a = 0

    def lfun(x):
        a = x + {K}
        return a

    return lfun
''',
    "dec": '''
@rec
def dec(x):
    a = x + {K}
    return a
''',
    "dec2": '''
@rec
@rec
def dec2(x):
    a = x + {K}
    return a
''',
    "lw": '''
def lwrap():
    z = 1

    def lmk3():
        a = z

        def lfun3(x):
            a = x + {K}
            return a

        return lfun3

    return lmk3


lmk3 = lwrap()
''',
    "ld": '''
@rec
def lmk4():
    a = 0

    def lfun4(x):
        a = x + {K}
        return a

    return lfun4
''',
    "lk": '''
class LK:
    def lmake2(self):
        a = 0

        def lfun2(x):
            a = x + {K}
            return a

        return lfun2
''',
}
HEADER = '''
import functools

REG = {}


def rec(fn):
    REG.setdefault(fn.__name__, fn)  # the innermost (real) function when decorators are stacked

    @functools.wraps(fn)
    def wrapper(*a):
        return fn(*a)

    return wrapper
'''

TARGETS = ["top", "meth", "om", "inner", "leaf", "dec", "maker", "deep", "ctop", "hdec", "rfun", "lmaker", "lfun", "dec2", "lmake2", "lfun2", "lmk3", "lfun3", "lmk4", "lfun4"]  # ctop/hdec share their bare names with top/dec
PROBE_ONLY = {"maker", "deep", "lmaker", "lmake2", "lmk3", "lmk4"}
LAZY = {"lfun": "lmaker", "lfun2": "lmake2", "lfun3": "lmk3", "lfun4": "lmk4"}  # instance -> its factory  # calling them again would create a second live closure

_DIR = None
_N = [0]


def _pkgdir():
    global _DIR
    if _DIR is None:
        _DIR = tempfile.mkdtemp(prefix="verif_c14_")
        sys.path.insert(0, _DIR)
        import atexit

        atexit.register(lambda: shutil.rmtree(_DIR, ignore_errors=True))
    return _DIR


def build_module(order, ks):
    _N[0] += 1
    name = f"c14mod_{os.getpid()}_{_N[0]}"
    # code objects compare equal regardless of their file name, and codefind keys its function
    # cache by code object: give every generated module its own line offsets so that two cases
    # in one process never produce equal code objects (that would be a statement about
    # codefind, not about ptera)
    # (the stride must exceed the longest module text - 140 lines with every block - or two
    # functions of consecutive modules can land on the same line after all)
    text = "\n" * (192 * _N[0]) + HEADER
    for b in order:
        text += BLOCKS[b].format(K=ks["ctop"] if b == "coll" else ks[b], K2=ks["hdec"] if b == "coll" else ks["om"])
    assert text.count("\n") - 192 * _N[0] < 192, "module text longer than the line stride"
    path = os.path.join(_pkgdir(), name + ".py")
    with open(path, "w") as f:
        f.write(text)
    importlib.invalidate_caches()
    mod = importlib.import_module(name)
    return mod, path, text


def drop_module(mod, path):
    sys.modules.pop(mod.__name__, None)
    try:
        os.remove(path)
    except OSError:
        pass


class World:
    def __init__(self, mod, ks):
        self.mod = mod
        self.ks = ks
        self.outer = mod.Outer() if hasattr(mod, "Outer") else None
        self.innerobj = mod.Outer.Inner() if hasattr(mod, "Outer") else None
        self.lazy = {}  # the only instance of a lazy closure is created by a ("make", t) operation
        self.present = {t for t in TARGETS if t not in LAZY and self._has(t)}  # fixed at import time

    def make(self, t="lfun"):
        if t not in self.lazy and LAZY[t] in self.present:
            self.lazy[t] = {"lfun": lambda: self.mod.lmaker(), "lfun2": lambda: self.mod.LK().lmake2(),
                            "lfun3": lambda: self.mod.lmk3(), "lfun4": lambda: self.mod.lmk4()}[t]()
            self.present.add(t)
            return True
        return False

    def env(self):
        e = dict(vars(self.mod))
        e.update(self.lazy)
        return e

    def has(self, t):
        return t in self.present

    def _has(self, t):
        return {"top": "top", "meth": "Outer", "om": "Outer", "inner": "inner", "leaf": "leaf", "dec": "dec",
                "maker": "maker", "deep": "deep", "ctop": "Coll", "hdec": "hdec", "rfun": "rfun", "lmaker": "lmaker", "dec2": "dec2", "lmake2": "LK", "lmk3": "lmk3", "lmk4": "lmk4"}[t] in vars(self.mod)

    def real(self, t):
        """The function object created by the def."""
        m = self.mod
        return {"top": lambda: m.top, "meth": lambda: m.Outer.Inner.meth, "om": lambda: m.Outer.om,
                "inner": lambda: m.inner, "leaf": lambda: m.leaf, "dec": lambda: m.REG["dec"],
                "maker": lambda: m.maker, "deep": lambda: m.deep, "ctop": lambda: m.Coll.top,
                "hdec": lambda: m.hdec, "rfun": lambda: m.rfun, "lmaker": lambda: m.lmaker,
                "lfun": lambda: self.lazy["lfun"], "lfun2": lambda: self.lazy["lfun2"],
                "dec2": lambda: m.REG["dec2"], "lmake2": lambda: m.LK.lmake2, "lmk3": lambda: m.lmk3,
                "lfun3": lambda: self.lazy["lfun3"], "lmk4": lambda: m.REG["lmk4"],
                "lfun4": lambda: self.lazy["lfun4"]}[t]()

    def handle(self, t):
        """What a user would pass to refstring()."""
        m = self.mod
        return {"top": lambda: m.top, "meth": lambda: m.Outer.Inner.meth, "om": lambda: m.Outer.om,
                "inner": lambda: m.inner, "leaf": lambda: m.leaf, "dec": lambda: m.dec,
                "maker": lambda: m.maker, "deep": lambda: m.deep, "ctop": lambda: m.Coll.top,
                "hdec": lambda: m.hdec, "rfun": lambda: m.rfun, "lmaker": lambda: m.lmaker,
                "lfun": lambda: self.lazy["lfun"], "lfun2": lambda: self.lazy["lfun2"],
                "dec2": lambda: m.dec2, "lmake2": lambda: m.LK.lmake2, "lmk3": lambda: m.lmk3,
                "lfun3": lambda: self.lazy["lfun3"], "lmk4": lambda: m.lmk4,
                "lfun4": lambda: self.lazy["lfun4"]}[t]()

    def name_selector(self, t):
        return {"top": "top > a", "meth": "Outer.Inner.meth > a", "om": "Outer.om > a", "inner": "inner > a",
                "leaf": "leaf > a", "dec": "dec > a", "maker": "maker > a", "deep": "deep > a",
                "ctop": "Coll.top > a", "hdec": "hdec > a", "rfun": "rfun > a", "lmaker": "lmaker > a", "lfun": "lfun > a", "dec2": "dec2 > a", "lmake2": "LK.lmake2 > a",
                "lfun2": "lfun2 > a", "lmk3": "lmk3 > a", "lfun3": "lfun3 > a", "lmk4": "lmk4 > a", "lfun4": "lfun4 > a"}[t]

    def call(self, t, x):
        m = self.mod
        if t == "meth":
            return self.innerobj.meth(x)
        if t == "om":
            return self.outer.om(x)
        if t == "ctop":
            return m.Coll().top(x)
        if t in LAZY:
            return self.lazy[t](x)
        return getattr(m, t)(x)


def run_case(order, ks, ops, regime, rec=None):
    import ptera
    from ptera import probing, refstring
    from codefind import code_registry

    mod, path, text = build_module(order, ks)
    world = World(mod, ks)
    stack = []  # (target, how, probe, sink, expected)
    flags = set()
    states = {}

    def pin():
        if regime == "scan":
            code_registry.always_use_cache = False
            code_registry.last_cost = 0
        else:
            code_registry.always_use_cache = True

    ctxt = lambda: f"regime {regime}, ops so far {done}\nmodule:\n{text}"  # noqa
    done = []
    try:
        refs = {}
        for t in TARGETS:
            if not world.has(t):
                continue
            states[t] = HY.FnState(world.real(t))
            pin()
            try:
                refs[t] = refstring(world.handle(t))
            except BaseException as e:
                raise PropertyViolation("refstring", f"refstring({t}) raised {HY.describe_exc(e)}\n{ctxt()}",
                                        extra={"bucket": "refstring:" + t})
        for op in ops:
            kind = op[0]
            t = op[1] if len(op) > 1 else None
            if kind == "reimp":
                # the module is executed again from the same, unchanged file (importlib.reload):
                # every def creates a new function object - with code equal by value to the old
                # one - and the old objects die; the same reference strings now designate the
                # new functions.  Only done while no probe is active.
                # (not under the pinned "cache" regime: forcing codefind to trust a cache that is
                # keyed by code objects compared by value would make the outcome a statement
                # about that forced setting)
                if stack or regime != "scan":
                    continue
                done.append(op)
                world = None
                states.clear()
                gc.collect()
                importlib.reload(mod)
                world = World(mod, ks)
                gc.collect()
                flags.add("module-executed-again")
                old_refs, refs = refs, {}
                for t2 in TARGETS:
                    if not world.has(t2):
                        continue
                    states[t2] = HY.FnState(world.real(t2))
                    pin()
                    try:
                        refs[t2] = refstring(world.handle(t2))
                    except BaseException as e:
                        raise PropertyViolation("refstring", f"refstring({t2}) raised {HY.describe_exc(e)} after the module was executed again\n{ctxt()}",
                                                extra={"bucket": "refstring:" + t2})
                    if old_refs.get(t2) != refs[t2]:
                        raise PropertyViolation("refstring", f"refstring({t2}) changed from {old_refs.get(t2)!r} to {refs[t2]!r} when the unchanged module was executed again\n{ctxt()}")
                continue
            if kind == "make":
                # the closure's one and only instance comes to life now - possibly while its
                # factory is instrumented
                lt = op[1] if len(op) > 1 and op[1] in LAZY else "lfun"
                fac = LAZY[lt]
                live = [s for s in stack if s[0] == fac]
                if world.make(lt):
                    done.append(op)
                    for s in live:
                        s[4].append({"a": 1 if fac == "lmk3" else 0})  # the factory's own binding of a
                    if any(s[0] in (fac, "anc:" + fac) for s in stack):
                        flags.add("instance-created-under-probe")
                    states[lt] = HY.FnState(world.real(lt))
                    pin()
                    try:
                        refs[lt] = refstring(world.handle(lt))
                    except BaseException as e:
                        raise PropertyViolation("refstring", f"refstring({lt}) raised {HY.describe_exc(e)}\n{ctxt()}",
                                                extra={"bucket": "refstring:" + lt})
                continue
            if t is not None and not world.has(t):
                continue
            done.append(op)
            pin()
            if kind == "act":
                how = op[2]
                if how.startswith("anc"):
                    # t is instrumented only as the enclosing call of a path (no capture of its
                    # own); the path never matches at run time: the probe expects no event
                    u = op[3]
                    if u == t or not world.has(u):
                        done.pop()
                        continue
                    if how == "anc-name":
                        sel = world.name_selector(t)[:-4] + " > " + world.name_selector(u)
                    else:
                        sel = refs[t] + " > " + refs[u] + " > a"
                    flags.add("ancestor-only")
                else:
                    sel = world.name_selector(t) if how == "name" else refs[t] + " > a"
                others = [s for s in stack if s[0] == t]
                if how == "ref" and others:
                    flags.add("ref-activation-while-probed")
                try:
                    p = probing(sel, env=world.env())
                    sink = p.accum()
                    p.__enter__()
                except BaseException as e:
                    raise PropertyViolation(
                        "activate", f"activating {sel!r} raised {HY.describe_exc(e)}\n{ctxt()}",
                        extra={"bucket": "activate:" + how + ":" + type(e).__name__})
                stack.append((("anc:" + t) if how.startswith("anc") else t, how, p, sink, []))
            elif kind == "deact":
                if stack:
                    _, _, p, _, _ = stack.pop()
                    p.__exit__(None, None, None)
            elif kind == "call":
                if t in PROBE_ONLY:
                    continue
                x = op[2]
                want = x + ks[t]
                for s in stack:
                    if s[0] == t:
                        s[4].append({"a": want})
                try:
                    got = world.call(t, x)
                except BaseException as e:
                    raise PropertyViolation("call", f"calling {t} raised {HY.describe_exc(e)}\n{ctxt()}")
                if got != want:
                    raise PropertyViolation("call", f"{t}({x}) returned {got}, expected {want}\n{ctxt()}")
            elif kind == "resolve":
                if any(s[0] in (t, "anc:" + t) for s in stack):
                    flags.add("resolve-while-probed")
                try:
                    sel = ptera.select(refs[t] + " > a", env={})
                    fn = sel.element.name
                except BaseException as e:
                    raise PropertyViolation(
                        "resolve", f"resolving {refs[t]!r} raised {HY.describe_exc(e)} "
                                   f"({len([s for s in stack if s[0] == t])} probe(s) active on it)\n{ctxt()}",
                        extra={"bucket": "resolve:" + type(e).__name__})
                if fn is not world.real(t):
                    raise PropertyViolation("resolve", f"{refs[t]!r} resolved to {fn!r}, not to the function created by the def\n{ctxt()}")
            # invariants: every sink equals its model
            for (tt, how, p, sink, exp) in stack:
                if list(sink) != exp:
                    raise PropertyViolation(
                        "stream", f"probe on {tt} (by {how}) received {list(sink)}, expected {exp}\n{ctxt()}",
                        extra={"bucket": "stream:" + how})
        while stack:
            _, _, p, _, _ = stack.pop()
            p.__exit__(None, None, None)
        for t, st in states.items():
            probs = st.is_clean()
            if probs:
                raise PropertyViolation("residue", f"after all probes ended {t}: {probs}\n{ctxt()}")
            pin()
            try:
                fn = ptera.select(refs[t] + " > a", env={}).element.name
            except BaseException as e:
                raise PropertyViolation("resolve", f"after all probes ended, resolving {refs[t]!r} raised {HY.describe_exc(e)}\n{ctxt()}",
                                        extra={"bucket": "resolve-after:" + type(e).__name__})
            if fn is not world.real(t):
                r = world.real(t)
                raise PropertyViolation(
                    "resolve", f"after all probes ended {refs[t]!r} resolves to {fn!r} (module {fn.__module__}, file "
                               f"{fn.__code__.co_filename}, same code object: {fn.__code__ is r.__code__}, equal code: "
                               f"{fn.__code__ == r.__code__}, discard={getattr(fn, '__ptera_discard__', None)}); expected "
                               f"{r!r} from {r.__code__.co_filename}\n{ctxt()}")
    finally:
        for s in stack:
            try:
                s[2].__exit__(None, None, None)
            except BaseException:
                pass
        for st in states.values():
            if st.is_clean():
                st.force_clean()
        HY.force_global_clean()
        code_registry.always_use_cache = False
        drop_module(mod, path)
    if rec is not None:
        nt = bool(flags & {"resolve-while-probed", "ref-activation-while-probed", "instance-created-under-probe"})
        rec.case(h64(repr((order, sorted(ks.items()), ops, regime))), nt, flags | {"regime:" + regime},
                 sample=lambda: {"blocks": order, "ops": [list(o) for o in ops], "regime": regime})
        rec.evaluations += len(ops) - 1


def replay(payload):
    try:
        run_case(payload["order"], payload["ks"], [tuple(o) for o in payload["ops"]], payload["regime"])
    except PropertyViolation as v:
        return [{"clause": v.clause, "detail": v.detail}]
    return []


def strategy(max_ops):
    from hypothesis import strategies as st

    tgt = st.sampled_from(TARGETS)
    op = st.one_of(
        st.tuples(st.just("act"), tgt, st.sampled_from(["name", "ref", "ref"])),
        st.tuples(st.just("act"), tgt, st.sampled_from(["anc-name", "anc-ref"]), tgt),
        st.tuples(st.just("deact")),
        st.tuples(st.just("call"), tgt, st.integers(0, 9)),
        st.tuples(st.just("call"), tgt, st.integers(0, 9)),
        st.tuples(st.just("resolve"), tgt),
        st.tuples(st.just("resolve"), tgt),
        st.tuples(st.just("make"), st.sampled_from(["lfun", "lfun2", "lfun3", "lfun4"])),
        st.tuples(st.just("reimp")),
    )

    @st.composite
    def cases(draw):
        order = draw(st.permutations(sorted(BLOCKS)))
        order = list(order)[: draw(st.integers(2, len(order)))]
        ks = {t: draw(st.integers(1, 40)) * 20 + i for i, t in enumerate(["top", "meth", "om", "inner", "leaf", "dec", "ctop", "hdec", "rfun", "lfun", "dec2", "lk", "lw", "ld"])}
        ks["lfun2"] = ks["lk"]
        ks["lfun3"] = ks["lw"]
        ks["lfun4"] = ks["ld"]
        # bias: operate mostly on one or two targets so that probes overlap
        focus = draw(st.one_of(
            st.lists(tgt, min_size=1, max_size=2),
            st.sampled_from([["inner", "maker"], ["leaf", "deep"], ["meth", "om"], ["leaf", "deep", "maker"],
                             ["top", "ctop"], ["dec", "hdec"], ["rfun"], ["lfun", "lmaker"], ["lfun", "lmaker", "lfun"], ["lfun2", "lmake2"], ["lfun3", "lmk3"], ["lfun4", "lmk4"], ["dec2"],
                             ["dec2", "dec"], ["dec"], ["dec2"], ["hdec"]]),
        ))
        ops = draw(st.lists(op, min_size=3, max_size=max_ops))
        ops = [(o[0], focus[hash(o) % len(focus)], *o[2:]) if len(o) > 1 and o[0] != "make" and draw(st.integers(0, 2)) else o for o in ops]
        if draw(st.integers(0, 3)) == 0:
            # a burst that is rare by chance: two probes on one target at the same time, the second
            # one made by name (or by reference), then a call
            bt = draw(st.sampled_from(focus))
            burst = [("act", bt, draw(st.sampled_from(["name", "ref"]))), ("act", bt, draw(st.sampled_from(["name", "name", "ref"]))),
                     ("call", bt, draw(st.integers(0, 9)))]
            if draw(st.integers(0, 2)) == 0:
                # ... or: a function nested in another one is probed, then its enclosing function,
                # then the nested one is resolved and called
                inner_t, outer_t = draw(st.sampled_from([("inner", "maker"), ("leaf", "deep"), ("leaf", "deep"), ("lfun", "lmaker"),
                                                         ("lfun2", "lmake2"), ("lfun3", "lmk3"), ("lfun4", "lmk4")]))
                burst = ([("make", inner_t)] if inner_t in LAZY else []) + [
                    ("act", inner_t, draw(st.sampled_from(["name", "ref"]))), ("act", outer_t, draw(st.sampled_from(["name", "ref"]))),
                    ("resolve", inner_t), ("call", inner_t, draw(st.integers(0, 9)))]
            at = draw(st.integers(0, len(ops)))
            ops = ops[:at] + burst + ops[at:]
        regime = draw(st.sampled_from(["scan", "cache"]))
        return order, ks, ops, regime

    return cases()


def plan(tier, seed, scale):
    if tier == "quick":
        return [{"examples": int(200 * scale), "ops": 15} for _ in range(16)]
    return [{"examples": int(900 * scale), "ops": 15 if i % 2 else 40} for i in range(32)]


def shard(cfg):
    rec = Recorder()

    def body(case):
        run_case(*case, rec=rec)

    try:
        n, v, herr = hyp_search(strategy(cfg["ops"]), body, seed=cfg["seed"] * 1000 + cfg["shard"],
                                max_examples=cfg["examples"], case_cpu_s=30.0)
    finally:
        if _DIR:
            shutil.rmtree(_DIR, ignore_errors=True)
    res = rec.result()
    if v is not None:
        order, ks, ops, regime = v.case
        res["violations"] = [violation_record(PROPERTY, v, {"order": order, "ks": ks, "ops": [list(o) for o in ops],
                                                            "regime": regime})]
    if herr:
        res["harness_errors"] = [herr]
    return res
