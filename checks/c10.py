"""C10 - every name a function binds or reads is selectable; absent names are refused.

Oracle: Python's own symbol table (symtable) of the generated source.  For `f > v`:
  parameter -> activation succeeds, provenance 'argument'; local assigned in f's own block
  -> 'body'; free variable -> 'closure'; implicit global / builtin referenced by f's block
  -> 'external'; a fresh name occurring nowhere -> SelectorError at __enter__, before any
  call; unknown meta-variable / unresolvable function -> SelectorError; an object that is not
  an instrumentable Python function -> TypeError.
Don't-care (two one-directional implications in the statement): names living only in nested
scopes, comprehension iteration variables (listed as function locals only since 3.12),
names declared global/nonlocal, and def-bound names.
"""

import symtable
import sys

from vlib import hygiene as HY
from vlib import progen as PG
from vlib import prorun as PR
from vlib.core import PropertyViolation, Recorder, hyp_search, violation_record, h64
from checks import c01

PROPERTY = "C10"
RULE = (
    "case = generated function (progen, all placement forms: bindings only inside except/with/for/try/else/"
    "finally, walrus also inside comprehensions, imports, nested def/class/lambda/comprehension scopes reusing "
    "outer names, closures, enclosing variables that only pass through f to an inner def) x identifier drawn from "
    "symtable's symbols of f, fresh names, bad meta-variables (incl. every truncation of a documented one) x "
    "target object (the function, unresolvable name, builtin, class, callable instance, functools.partial, "
    "lambda, async def). Non-trivial = the identifier's only binding/read sits inside a compound statement or "
    "is reused by a nested scope, or the target is not a plain function; distinct by (source, identifier, target)."
)
ASSUMPTIONS = [
    "symtable is the oracle for Python's scoping; def-bound names, comprehension variables, nested-scope-only names and global/nonlocal-declared names are don't-care",
]

FRESH = ["zz", "nosuch", "q", "A", "f_", "xss", "selff"]
DOCUMENTED_META = ["#enter", "#error", "#exit", "#receive", "#value", "#yield"]
BADMETA = ["#foo", "#values", "#enterr", "#loop", "#Value"] + sorted(
    {m[:k] for m in DOCUMENTED_META for k in range(2, len(m))}      # truncated documented names
    | {"#" + m[2:] for m in DOCUMENTED_META}                         # beheaded
    | {m + "s" for m in DOCUMENTED_META} | {m.upper() for m in DOCUMENTED_META}
    | {"#endloop", "#return", "#exit_"}
)

EXTRA = '''
import functools

async def coro(x):
    a = x
    return a

lam = lambda x: x + 1

class Klass:
    def __init__(self, x):
        self.x = x

class Callable_:
    def __call__(self, x):
        a = x
        return a

inst = Callable_()
part = functools.partial(lam, 1)
'''


def fn_table(src):
    top = symtable.symtable(PG.PRELUDE + "\n" + src, "<c10>", "exec")

    def find(t):
        for ch in t.get_children():
            if ch.get_type() == "function" and ch.get_name() == "f":
                return ch
            r = find(ch)
            if r is not None:
                return r
        return None

    return find(top)


def classify(tab, fn, name):
    """Expected outcome from symtable: ('ok', provenance) | ('refuse',) | ('dontcare',)."""
    try:
        sym = tab.lookup(name)
    except KeyError:
        # occurs nowhere in f's own block; might still occur in a nested scope
        for ch in _all_children(tab):
            try:
                ch.lookup(name)
                return ("dontcare",)
            except KeyError:
                pass
        return ("refuse",)
    if name in PG.declared_scope_names(fn):
        return ("dontcare",)
    if sym.is_namespace():
        return ("dontcare",)  # def / class bound names
    if name in ("cv_", "q_"):
        return ("dontcare",)
    if sym.is_parameter():
        return ("ok", "argument")
    if sym.is_free():
        return ("ok", "closure")
    if sym.is_local():
        return ("ok", "body")
    if sym.is_global() and sym.is_referenced():
        return ("ok", "external")
    return ("dontcare",)


def _all_children(t):
    for ch in t.get_children():
        yield ch
        yield from _all_children(ch)


def placement_features(fn, name):
    feats = set()
    top = {n for s in fn["body"] for n in _top_bound(s)}
    bn = PG.bound_names(fn)
    if name in bn and name not in top and name not in [p[0] for p in fn["params"]]:
        feats.add("bound-only-in-compound")
    for e in PG.walk_exprs(fn["body"]):
        if e[0] == "walrus" and e[1] == name:
            feats.add("walrus")
    for s in PG.walk_stmts(fn["body"]):
        if s[0] == "def" and s[2] == name:
            feats.add("captured-by-nested-def")
        if s[0] == "try" and any(h[1] == name for h in s[2]):
            feats.add("except-name")
    return feats


def _top_bound(s):
    if s[0] == "assign":
        for t in s[1]:
            yield from PG.target_names(t)
    elif s[0] in ("ann",) and s[3] is not None:
        yield s[1]
    elif s[0] == "import":
        yield from s[2]


def check_name(fn, name, rec=None):
    from ptera import probing
    from ptera.selector import SelectorError

    src = PG.render(fn)
    tab = fn_table(src)
    want = classify(tab, fn, name)
    f, glb = PR.load(src)
    original = f.__code__
    ran = []
    ctxt = f"identifier {name!r}, symtable says {want}\n{src}"
    p = probing(f"f > {name}", env={"f": f})
    try:
        try:
            p.__enter__()
        except BaseException as e:
            got = ("refuse", e)
        else:
            info = getattr(f, "__ptera_info__", None) or {}
            got = ("ok", (info.get(name) or {}).get("provenance"))
            p.__exit__(None, None, None)
    finally:
        if HY.global_state_problems():
            HY.force_global_clean()
        PR.forget(glb)
    if want[0] == "ok":
        if got[0] != "ok":
            raise PropertyViolation(
                "refused-existing", f"activation refused with {HY.describe_exc(got[1])}\n{ctxt}",
                extra={"bucket": "refused-existing:" + type(got[1]).__name__ + ":" + want[1]})
        if got[1] != want[1]:
            raise PropertyViolation("provenance", f"recorded provenance {got[1]!r}, Python scopes it as {want[1]!r}\n{ctxt}",
                                    extra={"bucket": f"provenance:{want[1]}->{got[1]}"})
    elif want[0] == "refuse":
        if got[0] == "ok":
            raise PropertyViolation("accepted-absent", f"activation on a name occurring nowhere in f succeeded\n{ctxt}")
        if not isinstance(got[1], SelectorError):
            raise PropertyViolation("wrong-refusal", f"refused with {HY.describe_exc(got[1])}, expected SelectorError\n{ctxt}")
        if f.__code__ is not original:
            raise PropertyViolation("refusal-residue", f"after the refusal f is left on instrumented code\n{ctxt}")
    if rec is not None:
        feats = placement_features(fn, name) | {"expect:" + want[0] + (":" + want[1] if len(want) > 1 else "")}
        nt = want[0] != "dontcare" and bool(feats & {"bound-only-in-compound", "walrus", "captured-by-nested-def", "except-name"})
        rec.case(h64(repr((src, name))), nt, feats, sample=lambda: {"source": src, "identifier": name, "expected": list(want)})


def check_target(kind, name, rec=None):
    """Non-function / unresolvable targets and bad meta-variables."""
    from ptera import probing
    from ptera.selector import SelectorError

    f, glb = PR.load(EXTRA + "\ndef f(x, xs):\n    a = x\n    return a\n")
    env = {k: glb[k] for k in ("f", "coro", "lam", "Klass", "inst", "part")}
    env["len"] = len
    sel, want = {
        "unresolvable": (f"nosuchfn > {name}", SelectorError),
        "unresolvable-attr": (f"f.nosuch > {name}", SelectorError),
        "badmeta": (f"f > {name}", SelectorError),
        "builtin": ("len > a", TypeError),
        "class": ("Klass > x", TypeError),
        "instance": ("inst > a", TypeError),
        "partial": ("part > x", TypeError),
        "lambda": ("lam > x", TypeError),
        "async": ("coro > a", TypeError),
    }[kind]
    try:
        try:
            p = probing(sel, env=env)
            p.__enter__()
        except BaseException as e:
            got = e
        else:
            p.__exit__(None, None, None)
            raise PropertyViolation("accepted-bad-target", f"probing({sel!r}) ({kind}) was activated")
    finally:
        if HY.global_state_problems():
            HY.force_global_clean()
        PR.forget(glb)
    if not isinstance(got, want):
        raise PropertyViolation(
            "wrong-refusal", f"probing({sel!r}) ({kind}) refused with {HY.describe_exc(got)}, expected {want.__name__}",
            extra={"bucket": f"wrong-refusal:{kind}:{type(got).__name__}"})
    if rec is not None:
        rec.case(h64(repr((kind, name))), True, {"target:" + kind}, sample={"selector": sel, "expected": want.__name__})


def replay(payload):
    try:
        if payload.get("mode") == "target":
            check_target(payload["kind"], payload["name"])
        else:
            fn = payload["fn"]
            fn["params"] = [tuple(p) for p in fn["params"]]
            fn["body"] = c01._tuplify(fn["body"])
            fn["closure"] = [tuple(c) for c in fn.get("closure") or []]
            check_name(fn, payload["name"])
    except PropertyViolation as v:
        return [{"clause": v.clause, "detail": v.detail}]
    return []


def strategy():
    from hypothesis import strategies as st

    fns = PG.functions(PG.Flags(walrus_in_comp=True, global_decl=True, nonlocal_decl=True, own_name_local=True))

    @st.composite
    def cases(draw):
        if draw(st.integers(0, 9)) == 0:
            kind = draw(st.sampled_from(["unresolvable", "unresolvable-attr", "badmeta", "builtin", "class", "instance",
                                         "partial", "lambda", "async"]))
            name = draw(st.sampled_from(BADMETA)) if kind == "badmeta" else draw(st.sampled_from(["a", "x"]))
            return ("target", kind, name)
        fn = draw(fns)
        src = PG.render(fn)
        tab = fn_table(src)
        syms = sorted(s.get_name() for s in tab.get_symbols())
        pool = syms * 3 + FRESH + ["cl", "G1", "E", "len", "os", "ex"]
        name = pool[draw(st.integers(0, len(pool) - 1))]
        return ("name", fn, name)

    return cases()


def plan(tier, seed, scale):
    if tier == "quick":
        return [{"examples": int(800 * scale)} for _ in range(16)]
    return [{"examples": int(12000 * scale)} for _ in range(32)]


def shard(cfg):
    sys.unraisablehook = lambda *a, **k: None
    rec = Recorder()

    def body(case):
        if case[0] == "target":
            check_target(case[1], case[2], rec)
        else:
            check_name(case[1], case[2], rec)

    n, v, herr = hyp_search(strategy(), body, seed=cfg["seed"] * 1000 + cfg["shard"], max_examples=cfg["examples"])
    res = rec.result()
    if v is not None:
        c = v.case
        if c[0] == "target":
            pl = {"mode": "target", "kind": c[1], "name": c[2]}
        else:
            pl = {"mode": "name", "fn": c[1], "name": c[2], "source": PG.render(c[1])}
        res["violations"] = [violation_record(PROPERTY, v, pl)]
    if herr:
        res["harness_errors"] = [herr]
    return res
