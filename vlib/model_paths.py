"""Reference model for call-path selectors (C03, C07 and the state machines).

Nothing here imports ptera.  `simulate` executes a plan abstractly and yields the time-ordered
trace of activations and bindings; `immediate_events` / `total_records` transcribe the two
matching relations of the properties:

  Immediate: at a binding of the focus variable in activation A, one event per strictly
  increasing embedding of the focus path p0..pk into the live stack ending at A.  For the
  level matched at activation Ai the event carries the latest binding made *by Ai* of each
  variable captured at that level, and for every sibling sub-selector hanging off that
  level the latest binding made by any activation matching the sibling chain underneath Ai.

  Total: one record per activation A0 of the outermost function, when it ends, holding for
  every capture all values bound by matching activations underneath A0 in time order, once
  per embedding of the sub-chain; no record when some capture is empty.
"""

from collections import Counter, namedtuple


class Act:
    __slots__ = ("id", "fn", "parent", "node", "depth")

    def __init__(self, id, fn, parent, node):
        self.id = id
        self.fn = fn
        self.parent = parent
        self.node = node
        self.depth = 0 if parent is None else parent.depth + 1

    def ancestors(self):
        """Strict ancestors, innermost first."""
        a = self.parent
        while a is not None:
            yield a
            a = a.parent

    def __repr__(self):
        return f"<{self.fn}#{self.id}>"


Bind = namedtuple("Bind", "t act var value")


class Trace:
    def __init__(self):
        self.binds = []  # list of Bind, time ordered
        self.exits = []  # (t, act, kind, value)
        self.acts = []
        self.t = 0

    def tick(self):
        self.t += 1
        return self.t


def simulate(roots, base=None, trace=None):
    """Abstractly run the driver over `roots` (a list of plan nodes).  `base` is the
    activation the driver itself runs in (None: top level)."""
    tr = trace or Trace()
    ids = [len(tr.acts)]

    def run(node, parent):
        act = Act(ids[0], node["fn"], parent, node)
        ids[0] += 1
        tr.acts.append(act)
        tr.binds.append(Bind(tr.tick(), act, "#enter", True))
        tr.binds.append(Bind(tr.tick(), act, "node", node))
        tr.binds.append(Bind(tr.tick(), act, "u", node["u0"]))
        tr.binds.append(Bind(tr.tick(), act, "w", node["w0"]))

        def kids(children):
            for ch in children:
                ok = run(ch, act)
                if not ok and not ch.get("catch"):
                    return False
            return True

        def finish(kind, value):
            if kind == "raise":
                tr.binds.append(Bind(tr.tick(), act, "#error", ("Boom", value)))
            tr.binds.append(Bind(tr.tick(), act, "#exit", True))
            tr.exits.append((tr.tick(), act, kind, value))
            return kind == "return"

        if not kids(node["pre"]):
            return finish("raise", _boom_id(node["pre"]))
        if node["fn"] == "ga":
            tr.binds.append(Bind(tr.tick(), act, "#yield", node["u0"]))
            tr.binds.append(Bind(tr.tick(), act, "#receive", None))
        if node["ru"] is not None:
            tr.binds.append(Bind(tr.tick(), act, "u", node["ru"]))
        if node["rw"] is not None:
            tr.binds.append(Bind(tr.tick(), act, "w", node["rw"]))
        if not kids(node["post"]):
            return finish("raise", _boom_id(node["post"]))
        if node["fn"] == "ga":
            wv = node["rw"] if node["rw"] is not None else node["w0"]
            tr.binds.append(Bind(tr.tick(), act, "#yield", wv))
            tr.binds.append(Bind(tr.tick(), act, "#receive", None))
        if node["raises"]:
            return finish("raise", node["id"])
        tr.binds.append(Bind(tr.tick(), act, "#value", node["ret"]))
        return finish("return", node["ret"])

    for r in roots:
        run(r, base)
    return tr


def _boom_id(children):
    """id carried by the Boom that escapes from the first uncaught raising child."""
    for ch in children:
        r = escaping(ch)
        if r is not None and not ch.get("catch"):
            return r
    return None


def call_result(node):
    """What the caller of `node` gets back when the call returns normally."""
    if node["fn"] == "ga":
        # the family drives generator members with list(): the yielded values
        return [node["u0"], node["rw"] if node["rw"] is not None else node["w0"]]
    return node["ret"]


def escaping(node):
    """The Boom id escaping from a call of `node`, or None if it returns."""
    for ch in node["pre"]:
        r = escaping(ch)
        if r is not None and not ch.get("catch"):
            return r
    for ch in node["post"]:
        r = escaping(ch)
        if r is not None and not ch.get("catch"):
            return r
    if node["raises"]:
        return node["id"]
    return None


# ---------------------------------------------------------------------------------------
# selector tree helpers (selectors are selgen.CallN / Cap values)


def focus_path(sel):
    """List of CallN from the root to the call holding the focus capture ([] if none)."""
    for c in sel.caps:
        if c.focus == 1:
            return [sel]
    for ch in sel.children:
        p = focus_path(ch)
        if p:
            return [sel] + p
    return []


def _capkey(c):
    return c.alias if c.alias is not None else c.name


def embeddings(chain, act, fixed_first=None):
    """All strictly increasing embeddings of chain (list of CallN, outermost first) into
    the activation stack ending *at* act (the last chain element must match act itself).
    Returns lists of activations, outermost first.  If fixed_first is given, the first
    element must be that activation."""
    stack = list(reversed([act] + list(act.ancestors())))  # outermost first
    k = len(chain)
    if stack[-1].fn != chain[-1].fn:
        return []
    out = []

    def rec(ci, si, acc):
        # choose position for chain[ci] among stack[si:]
        if ci == k - 1:
            out.append(acc + [stack[-1]])
            return
        for j in range(si, len(stack) - 1):
            if stack[j].fn == chain[ci].fn:
                if ci == 0 and fixed_first is not None and stack[j] is not fixed_first:
                    continue
                rec(ci + 1, j + 1, acc + [stack[j]])

    if k == 1:
        if fixed_first is None or stack[-1] is fixed_first:
            out.append([stack[-1]])
        return out
    rec(0, 0, [])
    return out


def count_chain_under(chain, act, top):
    """Number of embeddings of `chain` (sibling sub-chain, outermost first) into the stack
    strictly below `top` and ending at `act`."""
    stack = []
    a = act
    while a is not None and a is not top:
        stack.append(a)
        a = a.parent
    if a is not top:
        return 0  # act is not underneath top
    stack.reverse()  # outermost (just below top) first, act last
    if not stack or stack[-1].fn != chain[-1].fn:
        return 0
    k = len(chain)
    n = len(stack)
    # dp over positions: ways[ci][si]
    from functools import lru_cache

    @lru_cache(maxsize=None)
    def ways(ci, si):
        if ci == k - 1:
            return 1 if si <= n - 1 else 0
        tot = 0
        for j in range(si, n - 1):
            if stack[j].fn == chain[ci].fn:
                tot += ways(ci + 1, j + 1)
        return tot

    return ways(0, 0)


def _sibling_nodes(call, on_path_child):
    """Yield (chain, node) for every node in the sibling sub-selectors of `call` (children
    other than the on-path one), chain = list of CallN from the sibling root to node."""

    def walk(n, chain):
        chain = chain + [n]
        yield chain, n
        for ch in n.children:
            yield from walk(ch, chain)

    for ch in call.children:
        if ch is on_path_child:
            continue
        yield from walk(ch, [])


def immediate_events(sel, trace, within=None, with_time=False):
    """Expected events for a focused selector, as a list of groups; each group is the
    multiset (list) of {capture: value} dicts produced by one binding of the focus variable.
    `within`: optional predicate on Bind.t restricting *when* the overlay is active (bindings
    outside are neither reported nor remembered)."""
    path = focus_path(sel)
    assert path, "selector has no focus"
    fcap = [c for c in path[-1].caps if c.focus == 1][0]
    groups = []
    binds = trace.binds
    for idx, b in enumerate(binds):
        if b.var != fcap.name or b.act.fn != path[-1].fn:
            continue
        if within is not None and not within(b.t):
            continue
        group = []
        for emb in embeddings(path, b.act):
            if within is not None and any(not within(_enter_t(trace, a)) for a in emb):
                # the matched activation must have been entered while the overlay was active
                continue
            ev = {}
            for i, (call, act) in enumerate(zip(path, emb)):
                nxt = path[i + 1] if i + 1 < len(path) else None
                for c in call.caps:
                    v = _latest(binds, idx, lambda x: x.act is act and x.var == c.name)
                    if v is not None:
                        ev[_capkey(c)] = v.value
                for chain, node in _sibling_nodes(call, nxt):
                    for c in node.caps:
                        v = _latest(
                            binds,
                            idx,
                            lambda x: x.var == c.name
                            and x.act.fn == node.fn
                            and count_chain_under(chain, x.act, act) > 0,
                        )
                        if v is not None:
                            ev[_capkey(c)] = v.value
            group.append(ev)
        groups.append((b.t, group) if with_time else group)
    return groups


def events_at(sel, trace, idx):
    """The group of events `immediate_events` would produce for the binding at index idx
    (using only bindings up to idx)."""
    path = focus_path(sel)
    fcap = [c for c in path[-1].caps if c.focus == 1][0]
    binds = trace.binds
    b = binds[idx]
    if b.var != fcap.name or b.act.fn != path[-1].fn:
        return []
    group = []
    for emb in embeddings(path, b.act):
        ev = {}
        for i, (call, act) in enumerate(zip(path, emb)):
            nxt = path[i + 1] if i + 1 < len(path) else None
            for c in call.caps:
                v = _latest(binds, idx, lambda x: x.act is act and x.var == c.name)
                if v is not None:
                    ev[_capkey(c)] = v.value
            for chain, node in _sibling_nodes(call, nxt):
                for c in node.caps:
                    v = _latest(
                        binds,
                        idx,
                        lambda x: x.var == c.name
                        and x.act.fn == node.fn
                        and count_chain_under(chain, x.act, act) > 0,
                    )
                    if v is not None:
                        ev[_capkey(c)] = v.value
        group.append(ev)
    return group


def _enter_t(trace, act):
    # time of the activation's first bind (#enter)
    for b in trace.binds:
        if b.act is act:
            return b.t
    return 0


def _latest(binds, upto_idx, pred):
    for j in range(upto_idx, -1, -1):
        if pred(binds[j]):
            return binds[j]
    return None


def all_nodes(sel):
    def walk(n, chain):
        chain = chain + [n]
        yield chain, n
        for ch in n.children:
            yield from walk(ch, chain)

    yield from walk(sel, [])


def total_records(sel, trace, with_time=False):
    """Expected records for a focus-free selector: list (in order of the outermost
    activations' exits) of {capture: [values...]}; activations whose record is incomplete
    are skipped."""
    out = []
    all_caps = [(_capkey(c)) for _, n in all_nodes(sel) for c in n.caps]
    for (t, act, kind, value) in trace.exits:
        if act.fn != sel.fn:
            continue
        rec = {}
        for chain, node in all_nodes(sel):
            for c in node.caps:
                vals = []
                for b in trace.binds:
                    if b.t > t:
                        break
                    if b.var != c.name or b.act.fn != node.fn:
                        continue
                    if len(chain) == 1:
                        mult = 1 if b.act is act else 0
                    else:
                        mult = count_chain_under(chain[1:], b.act, act)
                    vals.extend([b.value] * mult)
                if vals:
                    rec[_capkey(c)] = vals
        if set(rec) == set(all_caps):
            out.append((t, [rec]) if with_time else rec)
    return out


def forced_total_records(sel, trace):
    """Expected records for a *focused* selector forced to total mode: list (per closing
    outermost activation, in exit order) of multisets of {capture: [values]} records - one
    per (embedding, focus binding), outer captures complete as of the close."""
    path = focus_path(sel)
    fcap = [c for c in path[-1].caps if c.focus == 1][0]
    all_caps = [(_capkey(c)) for _, n in all_nodes(sel) for c in n.caps]
    out = []
    for (t, act0, kind, value) in trace.exits:
        if act0.fn != sel.fn:
            continue
        group = []
        for idx, b in enumerate(trace.binds):
            if b.t > t:
                break
            if b.var != fcap.name or b.act.fn != path[-1].fn:
                continue
            for emb in embeddings(path, b.act, fixed_first=act0):
                rec = {_capkey(fcap): [b.value]}
                for i, (call, act) in enumerate(zip(path, emb)):
                    nxt = path[i + 1] if i + 1 < len(path) else None
                    for c in call.caps:
                        if c is fcap:
                            continue
                        vals = [x.value for x in trace.binds if x.t <= t and x.act is act and x.var == c.name]
                        if vals:
                            rec[_capkey(c)] = vals
                    for chain, node in _sibling_nodes(call, nxt):
                        for c in node.caps:
                            vals = []
                            for x in trace.binds:
                                if x.t > t:
                                    break
                                if x.var == c.name and x.act.fn == node.fn:
                                    vals.extend([x.value] * count_chain_under(chain, x.act, act))
                            if vals:
                                rec[_capkey(c)] = vals
                if set(rec) == set(all_caps):
                    group.append(rec)
        out.append(group)
    return out


def multiset(dicts):
    return Counter(repr(sorted(d.items(), key=lambda kv: kv[0])) for d in dicts)
