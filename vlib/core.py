"""Shared plumbing for all checks: sharding, Hypothesis driver, evidence, replay files,
known findings, VIOLATION / KNOWN-FINDING printing and exit codes.

Exit codes: 0 = property held on everything explored, 1 = violation (a VIOLATION line was
printed), 2 = harness error (never a verdict).
"""

import argparse
import hashlib
import json
import os
import sys
import time
import traceback
from collections import Counter
from concurrent.futures import ProcessPoolExecutor
import multiprocessing

VERIF = os.path.dirname(os.path.dirname(os.path.abspath(__file__)))
REPO = os.environ.get("VERIF_REPO", "/repo")
NPROC = int(os.environ.get("VERIF_NPROC", "16"))


class PropertyViolation(Exception):
    """Raised only by the comparison step of a property body."""

    def __init__(self, clause, detail, case=None, extra=None):
        super().__init__(f"{clause}: {detail}")
        self.clause = clause
        self.detail = detail
        self.case = case
        self.extra = extra or {}


class HarnessError(Exception):
    pass


def h64(obj):
    """Stable 64-bit hash of a JSON-able / repr-able object."""
    if not isinstance(obj, (str, bytes)):
        obj = repr(obj)
    if isinstance(obj, str):
        obj = obj.encode("utf8", "backslashreplace")
    return int.from_bytes(hashlib.blake2b(obj, digest_size=8).digest(), "big")


class Recorder:
    """Per-shard bookkeeping of what was actually generated."""

    MAX_SAMPLES = 6

    def __init__(self):
        self.evaluations = 0
        self.nontrivial = set()
        self.features = Counter()
        self.counters = Counter()
        self._samples = {}  # hash -> sample (keeps the smallest hashes: deterministic)

    def case(self, key, nontrivial, features=(), sample=None):
        self.evaluations += 1
        for f in features:
            self.features[f] += 1
        if nontrivial:
            h = key if isinstance(key, int) else h64(key)
            if h not in self.nontrivial:
                self.nontrivial.add(h)
                if sample is not None:
                    if len(self._samples) < self.MAX_SAMPLES or h < max(self._samples):
                        self._samples[h] = sample() if callable(sample) else sample
                        if len(self._samples) > self.MAX_SAMPLES:
                            del self._samples[max(self._samples)]

    def count(self, name, n=1):
        self.counters[name] += n

    def result(self):
        return {
            "evaluations": self.evaluations,
            "nontrivial": self.nontrivial,
            "features": dict(self.features),
            "counters": dict(self.counters),
            "samples": dict(self._samples),
        }


def merge_results(results):
    out = {
        "evaluations": 0,
        "nontrivial": set(),
        "features": Counter(),
        "counters": Counter(),
        "samples": {},
        "violations": [],
        "harness_errors": [],
        "notes": [],
    }
    for r in results:
        out["evaluations"] += r.get("evaluations", 0)
        out["nontrivial"] |= r.get("nontrivial", set())
        out["features"].update(r.get("features", {}))
        out["counters"].update(r.get("counters", {}))
        out["samples"].update(r.get("samples", {}))
        out["violations"].extend(r.get("violations", []))
        out["harness_errors"].extend(r.get("harness_errors", []))
        out["notes"].extend(r.get("notes", []))
    keep = sorted(out["samples"])[: Recorder.MAX_SAMPLES]
    out["samples"] = [out["samples"][k] for k in keep]
    return out


# ---------------------------------------------------------------------------------------
# Hypothesis driver


def hyp_search(strategy, body, *, seed, max_examples, shrink_budget_s=45.0, case_key=repr, case_cpu_s=None):
    """Run `body(case)` over `strategy`.

    Returns (n_calls, violation_or_None, harness_error_or_None).  `body` may raise
    PropertyViolation only from its comparison step; any other exception is a harness error.
    Shrinking is bounded: once `shrink_budget_s` has elapsed since the first failure, every
    *new* candidate is reported as passing (old failures keep failing), which makes the
    shrinker stop; the smallest failing case seen is returned.  Time therefore only affects
    how small the reported case is, never whether there is one.
    """
    import hypothesis
    from hypothesis import HealthCheck, Phase, given, settings
    from hypothesis import errors as herr

    st = {"n": 0, "failed": {}, "t0": None, "best": None, "harness": None}

    @hypothesis.seed(seed)
    @settings(
        max_examples=max_examples,
        database=None,
        deadline=None,
        report_multiple_bugs=False,
        derandomize=False,
        suppress_health_check=list(HealthCheck),
        phases=[Phase.generate, Phase.shrink],
        print_blob=False,
    )
    @given(strategy)
    def t(case):
        if st["harness"] is not None:
            return
        st["n"] += 1
        key = case_key(case)
        if st["t0"] is not None and time.monotonic() - st["t0"] > shrink_budget_s:
            if key in st["failed"]:
                raise st["failed"][key]
            return
        try:
            if case_cpu_s:
                try:
                    with cpu_guard(case_cpu_s):
                        body(case)
                except CaseHang as h:
                    raise PropertyViolation(
                        "hang", f"the case did not finish: {h} (cases of this check normally take milliseconds)",
                        extra={"bucket": "hang"})
            else:
                body(case)
        except PropertyViolation as v:
            if v.case is None:
                v.case = case
            st["failed"][key] = v
            if st["t0"] is None:
                st["t0"] = time.monotonic()
            if st["best"] is None or len(key) <= len(case_key(st["best"].case)):
                st["best"] = v
            raise
        except (herr.UnsatisfiedAssumption, herr.StopTest):
            raise
        except BaseException as e:  # harness error: stop the campaign quietly
            if isinstance(e, (KeyboardInterrupt, SystemExit)):
                raise
            if type(e).__module__.startswith("hypothesis"):
                raise
            st["harness"] = "".join(traceback.format_exception(type(e), e, e.__traceback__))
            return

    try:
        t()
    except PropertyViolation as v:
        return st["n"], v, st["harness"]
    except herr.Flaky:
        return st["n"], st["best"], st["harness"]
    except BaseException as e:
        if isinstance(e, (KeyboardInterrupt, SystemExit)):
            raise
        if st["best"] is not None:
            return st["n"], st["best"], st["harness"]
        return st["n"], None, "".join(traceback.format_exception(type(e), e, e.__traceback__))
    return st["n"], None, st["harness"]


class CaseHang(BaseException):
    pass


import contextlib as _contextlib


@_contextlib.contextmanager
def cpu_guard(seconds=30.0):
    """Raise CaseHang inside the guarded block once it has used `seconds` of CPU time (and
    again every second after that: code under test may swallow one exception).  For checks
    whose cases normally take milliseconds: a mutated tree must not make a shard spin for ever.
    Not nestable with vlib.prorun.time_limit (same timer)."""
    import signal

    def handler(sig, frame):
        raise CaseHang(f"no result within {seconds:g} s of CPU time")

    import gc

    gc_was_on = gc.isenabled()
    gc.disable()  # a full collection in a long-running shard must not count against the case
    old = signal.signal(signal.SIGPROF, handler)
    signal.setitimer(signal.ITIMER_PROF, seconds, 1.0)
    try:
        yield
    finally:
        signal.setitimer(signal.ITIMER_PROF, 0)
        signal.signal(signal.SIGPROF, old)
        if gc_was_on:
            gc.enable()


def hyp_stateful(machine_cls, *, seed, max_examples, step_count, shrink_budget_s=60.0):
    """Run a RuleBasedStateMachine.  The machine's rules raise PropertyViolation.

    Returns (violation_or_None, harness_error_or_None).  The machine class is expected to
    keep `machine_cls.LAST_HISTORY` (list) up to date so the shrunk history can be saved.
    """
    import hypothesis
    from hypothesis import HealthCheck, Phase, settings
    from hypothesis import errors as herr
    from hypothesis.stateful import run_state_machine_as_test

    s = settings(
        max_examples=max_examples,
        stateful_step_count=step_count,
        database=None,
        deadline=None,
        report_multiple_bugs=False,
        derandomize=False,
        suppress_health_check=list(HealthCheck),
        phases=[Phase.generate, Phase.shrink],
        print_blob=False,
    )
    machine_cls._t0 = None
    machine_cls._budget = shrink_budget_s
    machine_cls._best = None
    try:
        # silence the "state = Machine(); state.rule()" reproduction printout
        import io
        import contextlib

        buf = io.StringIO()
        with contextlib.redirect_stdout(buf):
            run_state_machine_as_test(hypothesis.seed(seed)(machine_cls), settings=s)
    except PropertyViolation as v:
        return v, None
    except herr.Flaky:
        return machine_cls._best, None
    except BaseException as e:
        if isinstance(e, (KeyboardInterrupt, SystemExit)):
            raise
        if machine_cls._best is not None:
            return machine_cls._best, None
        return None, "".join(traceback.format_exception(type(e), e, e.__traceback__))
    return None, None


# ---------------------------------------------------------------------------------------
# Known findings


def load_known_findings(prop):
    """Parse KNOWN_FINDINGS.txt -> (known entries, fixed entries) for one property."""
    path = os.path.join(VERIF, "KNOWN_FINDINGS.txt")
    known, fixed = [], []
    if not os.path.exists(path):
        return known, fixed
    for line in open(path, encoding="utf8"):
        line = line.strip()
        if not line or line.startswith("#"):
            continue
        kind, _, rest = line.partition(":")
        kind = kind.strip()
        fields = {}
        words = rest.split()
        text = []
        for w in words:
            if "=" in w and not text and w.split("=", 1)[0] in ("property", "id", "witness"):
                k, v = w.split("=", 1)
                fields[k] = v
            else:
                text.append(w)
        fields["text"] = " ".join(text)
        if fields.get("property") != prop:
            continue
        (known if kind == "known" else fixed).append(fields)
    return known, fixed


def write_replay(prop, payload):
    os.makedirs(os.path.join(VERIF, "replays"), exist_ok=True)
    blob = json.dumps(payload, indent=1, sort_keys=True, default=repr)
    name = f"{prop}-{h64(blob):016x}.json"
    path = os.path.join(VERIF, "replays", name)
    with open(path, "w", encoding="utf8") as f:
        f.write(blob)
    return os.path.join("replays", name)


def violation_record(prop, v, payload):
    """Turn a PropertyViolation + replay payload into a picklable record."""
    return {
        "property": prop,
        "clause": v.clause,
        "detail": str(v.detail)[:2000],
        "payload": payload,
        "bucket": v.extra.get("bucket") or v.clause,
    }


# ---------------------------------------------------------------------------------------
# Main entry point used by run.py


def _shard_entry(args):
    modname, cfg = args
    sys.path[:0] = [p for p in (REPO, VERIF) if p not in sys.path]
    try:
        # a runaway allocation (e.g. a lexer that never consumes its input) must end in a
        # MemoryError inside the case, not in the kernel killing the worker
        import resource

        lim = int(os.environ.get("VERIF_AS_LIMIT_GB", "3")) << 30
        resource.setrlimit(resource.RLIMIT_AS, (lim, lim))
    except Exception:
        pass
    try:
        import importlib

        mod = importlib.import_module(modname)
        res = mod.shard(cfg)
        res.setdefault("harness_errors", [])
        return res
    except BaseException as e:  # noqa
        return {
            "harness_errors": [
                f"shard {cfg.get('shard')} crashed:\n"
                + "".join(traceback.format_exception(type(e), e, e.__traceback__))
            ]
        }


def run_shards(modname, cfgs, nproc=None):
    nproc = nproc or NPROC
    if os.environ.get("VERIF_INPROC") == "1":
        return [_shard_entry((modname, c)) for c in cfgs]
    ctx = multiprocessing.get_context("spawn")
    with ProcessPoolExecutor(max_workers=nproc, mp_context=ctx, max_tasks_per_child=1) as ex:
        return list(ex.map(_shard_entry, [(modname, c) for c in cfgs]))


def main(mod, argv=None):
    ap = argparse.ArgumentParser()
    ap.add_argument("--tier", default=os.environ.get("VERIF_TIER", "quick"), choices=["quick", "thorough"])
    ap.add_argument("--replay", default=None)
    ap.add_argument("--scale", type=float, default=float(os.environ.get("VERIF_SCALE", "1")))
    ap.add_argument("--no-evidence", action="store_true")
    a = ap.parse_args(argv)
    prop = mod.PROPERTY
    seed = int(os.environ.get("VERIF_SEED", "1") or "1")
    t0 = time.time()

    if a.replay:
        return _do_replay(mod, prop, a.replay)

    known, fixed = load_known_findings(prop)
    known_lines = []
    violations = []
    harness = []

    # 1. witnesses of known findings: print KNOWN-FINDING if they still violate
    for k in known:
        wpath = os.path.join(VERIF, k["witness"])
        try:
            payload = json.load(open(wpath))
            vs = mod.replay(payload)
        except BaseException as e:  # noqa
            harness.append(f"witness {k.get('id')} failed to replay: {e!r}\n{traceback.format_exc()}")
            continue
        if vs:
            known_lines.append(f"KNOWN-FINDING: property={prop} {k.get('id','')} {k['text']}")

    # 2. regression tier: witnesses of fixed findings + saved regression cases must hold
    regdir = os.path.join(VERIF, "findings")
    reg_n = 0
    for fn in sorted(os.listdir(regdir)) if os.path.isdir(regdir) else []:
        if not fn.startswith(prop + "-") or not fn.endswith(".json"):
            continue
        if any(os.path.basename(k["witness"]) == fn for k in known):
            continue
        try:
            payload = json.load(open(os.path.join(regdir, fn)))
            vs = mod.replay(payload)
            reg_n += 1
        except BaseException as e:  # noqa
            harness.append(f"regression {fn} failed to replay: {e!r}\n{traceback.format_exc()}")
            continue
        for v in vs:
            v.setdefault("payload", payload)
            v["bucket"] = "regression:" + fn
            violations.append(v)

    # 3. generated search
    cfgs = mod.plan(a.tier, seed, a.scale)
    for i, c in enumerate(cfgs):
        c.setdefault("tier", a.tier)
        c.setdefault("seed", seed)
        c.setdefault("shard", i)
        c.setdefault("nshards", len(cfgs))
    results = run_shards(mod.__name__, cfgs)
    agg = merge_results(results)
    harness.extend(agg["harness_errors"])
    violations.extend(agg["violations"])

    # de-duplicate violations by bucket, keep the smallest payload per bucket
    byb = {}
    for v in violations:
        b = v.get("bucket", v.get("clause"))
        size = len(json.dumps(v.get("payload"), default=repr))
        if b not in byb or size < byb[b][0]:
            byb[b] = (size, v)
    violations = [v for _, v in byb.values()]

    for line in known_lines:
        print(line)
    vlines = []
    for v in violations:
        payload = dict(v.get("payload") or {})
        payload.setdefault("property", prop)
        payload["_violation"] = {"clause": v.get("clause"), "detail": v.get("detail")}
        path = write_replay(prop, payload)
        vlines.append(f"VIOLATION property={prop} replay={path}")
        print(f"# {prop} violated: {v.get('clause')}: {str(v.get('detail'))[:600]}")
    for line in vlines:
        print(line)

    wall = time.time() - t0
    if not a.no_evidence:
        cov = {
            "evaluations": int(agg["evaluations"]),
            "distinct_nontrivial": len(agg["nontrivial"]),
            "rule": mod.RULE,
            "samples": agg["samples"],
            "feature_histogram": dict(sorted(agg["features"].items())),
            "counters": dict(sorted(agg["counters"].items())),
            "known_findings_listed": [k.get("id") for k in known],
            "known_findings_still_failing": len(known_lines),
            "regression_cases_replayed": reg_n,
            "shards": len(cfgs),
            "notes": agg["notes"][:20],
        }
        if hasattr(mod, "coverage_extra"):
            cov.update(mod.coverage_extra(agg, a.tier))
        ev = {
            "property_id": prop,
            "tier": a.tier,
            "seed": seed,
            "level": "exploration",
            "coverage": cov,
            "assumptions": list(getattr(mod, "ASSUMPTIONS", [])),
            "wall_s": round(wall, 2),
            "violations": len(violations),
        }
        if harness:
            ev["coverage"]["harness_errors"] = [h[-1500:] for h in harness[:5]]
        os.makedirs(os.path.join(VERIF, "evidence"), exist_ok=True)
        with open(os.path.join(VERIF, "evidence", f"{prop}.json"), "w") as f:
            json.dump(ev, f, indent=1, default=repr)

    print(
        f"# {prop} tier={a.tier} seed={seed} evaluations={agg['evaluations']} "
        f"distinct_nontrivial={len(agg['nontrivial'])} violations={len(violations)} "
        f"known={len(known_lines)} wall={wall:.1f}s"
    )
    if violations:
        return 1
    if harness:
        for h in harness[:5]:
            print("HARNESS-ERROR:", h[-3000:], file=sys.stderr)
        return 2
    return 0


def _do_replay(mod, prop, path):
    if not os.path.isabs(path):
        path = os.path.join(VERIF, path)
    payload = json.load(open(path))
    try:
        vs = mod.replay(payload)
    except BaseException:  # noqa
        traceback.print_exc()
        return 2
    if vs:
        for v in vs:
            print(f"# {prop} violated: {v.get('clause')}: {str(v.get('detail'))[:1500]}")
        print(f"VIOLATION property={prop} replay={os.path.relpath(path, VERIF)}")
        return 1
    print(f"# {prop}: replay holds")
    return 0
