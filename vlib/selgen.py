"""Selector IR, its documented spellings, its denotation, and generators (C15, C18).

IR
    Cap(name, alias, tag, value, vop, focus)
        name   None -> generic capture ('*' / '$alias'), else a variable name or '#meta'
        alias  capture name given with `as` (None: same as name; for generic: no capture)
        tag    None or 'A' (rendered ':@A')
        value  None or value IR;  vop '=' or '~'
        focus  0, 1 ('!') or 2 ('!!')
    CallN(fn, fntag, caps, children)
        fn '*' or a (dotted) name;  caps tuple of Cap;  children tuple of CallN
    value IR:  ('sym', text) | ('call', fname, (args...)) | ('kw', key, valueIR)

Nothing here calls ptera to obtain an expected answer: `denote` is computed from the IR.
"""

from collections import namedtuple
import itertools

Cap = namedtuple("Cap", "name alias tag value vop focus")
CallN = namedtuple("CallN", "fn fntag caps children")


def cap(name, alias=None, tag=None, value=None, vop="=", focus=0):
    return Cap(name, alias, tag, value, vop, focus)


def call(fn, caps=(), children=(), fntag=None):
    return CallN(fn, fntag, tuple(caps), tuple(children))


# ---------------------------------------------------------------------------------------
# Denotation: the field tree `selector.parse` must produce, as nested tuples.


def d_value(v):
    if v is None:
        return ("ABSENT",)
    kind = v[0]
    if kind == "sym":
        return ("V", v[1])
    if kind == "call":
        return ("VC", ("V", v[1]), tuple(d_value(a) for a in v[2]))
    if kind == "kw":
        return ("VK", ("V", v[1]), d_value(v[2]))
    raise ValueError(v)


def d_cap(c):
    if c.name is None:
        capture = c.alias
        name = None
    else:
        capture = c.alias if c.alias is not None else c.name
        name = ("str", c.name)
    val = d_value(c.value)
    if c.value is not None and c.vop == "~":
        val = ("VC", "MatchFunction", (val,))
    cat = None if c.tag is None else ("V", "@" + c.tag)
    tags = tuple(sorted({c.focus} - {0}))
    return ("E", name, capture, cat, val, tags)


def d_call(c):
    name = None if c.fn == "*" else ("V", c.fn)
    cat = None if c.fntag is None else ("V", "@" + c.fntag)
    el = ("E", name, None, cat, ("ABSENT",), ())
    return (
        "C",
        el,
        tuple(d_cap(x) for x in c.caps),
        tuple(d_call(x) for x in c.children),
        False,
    )


def focus_cap(c):
    """The Cap with focus 1, searching captures then children in order (or None)."""
    for x in c.caps:
        if x.focus == 1:
            return x
    for ch in c.children:
        r = focus_cap(ch)
        if r is not None:
            return r
    return None


def count_focus(c):
    return sum(1 for x in c.caps if x.focus == 1) + sum(count_focus(ch) for ch in c.children)


def depth(c):
    return 1 + max((depth(ch) for ch in c.children), default=0)


def n_caps(c):
    return len(c.caps) + sum(n_caps(ch) for ch in c.children)


def ir_features(c):
    f = set()

    def walk(c):
        if c.fn == "*":
            f.add("fn-wildcard")
        if c.fntag:
            f.add("fn-tag")
        for x in c.caps:
            if x.name is None:
                f.add("generic")
            elif x.name.startswith("#"):
                f.add("meta")
            if x.alias is not None and x.alias != x.name:
                f.add("alias")
            if x.tag:
                f.add("tag")
            if x.value is not None:
                f.add("value" + ("-match" if x.vop == "~" else ""))
            if x.focus == 2:
                f.add("focus2")
        for ch in c.children:
            walk(ch)

    walk(c)
    if depth(c) >= 2:
        f.add("depth>=2")
    return f


# ---------------------------------------------------------------------------------------
# dump of the *actual* ptera objects into the same tuple language


def dump(obj):
    from ptera import selector as S
    from ptera.utils import ABSENT

    def dv(v):
        if v is ABSENT:
            return ("ABSENT",)
        if isinstance(v, S.VSymbol):
            return ("V", v.value)
        if isinstance(v, S.VCall):
            fn = "MatchFunction" if v.fn is S.MatchFunction else dv(v.fn)
            return ("VC", fn, tuple(dv(a) for a in v.args))
        if isinstance(v, S.VKeyword):
            return ("VK", dv(v.key), dv(v.value))
        if v is None:
            return None
        if isinstance(v, str):
            return ("str", v)
        return ("obj", repr(v))

    if isinstance(obj, S.Element):
        return (
            "E",
            dv(obj.name) if obj.name is not None else None,
            obj.capture,
            dv(obj.category) if obj.category is not None else None,
            dv(obj.value),
            tuple(sorted(obj.tags)),
        )
    if isinstance(obj, S.Call):
        return (
            "C",
            dump(obj.element),
            tuple(dump(x) for x in obj.captures),
            tuple(dump(x) for x in obj.children),
            obj.immediate,
        )
    return ("?", repr(obj))


def construct(d):
    """Build the selector object directly through the constructors from a denotation."""
    from ptera import selector as S
    from ptera.utils import ABSENT

    def cv(v):
        if v is None:
            return None
        if v == ("ABSENT",):
            return ABSENT
        if v[0] == "V":
            return S.VSymbol(v[1])
        if v[0] == "str":
            return v[1]
        if v[0] == "VC":
            fn = S.MatchFunction if v[1] == "MatchFunction" else cv(v[1])
            return S.VCall(fn, tuple(cv(a) for a in v[2]))
        if v[0] == "VK":
            return S.VKeyword(cv(v[1]), cv(v[2]))
        raise ValueError(v)

    if d[0] == "E":
        _, name, capture, cat, val, tags = d
        return S.Element(
            name=cv(name), capture=capture, category=cv(cat), value=cv(val), tags=frozenset(tags)
        )
    _, el, caps, children, imm = d
    return S.Call(
        element=construct(el),
        captures=tuple(construct(x) for x in caps),
        children=tuple(construct(x) for x in children),
        immediate=imm,
    )


# ---------------------------------------------------------------------------------------
# Rendering.  A rendering is a list of tokens; OP tokens may have whitespace around them.


class Tok(str):
    op = False


class Op(Tok):
    op = True


def _w(s):
    return Tok(s)


def _o(s):
    return Op(s)


def r_value(v):
    kind = v[0]
    if kind == "sym":
        return [_w(v[1])]
    if kind == "call":
        out = [_w(v[1]), _o("(")]
        for i, a in enumerate(v[2]):
            if i:
                out.append(_o(","))
            out += r_value(a)
        out.append(_o(")"))
        return out
    if kind == "kw":
        return [_w(v[1]), _o("=")] + r_value(v[2])
    raise ValueError(v)


def r_cap(c, ch, mark_focus=True):
    """Tokens for one capture.  `ch` is a choice source (callable n -> int in [0, n))."""
    out = []
    if mark_focus and c.focus == 1:
        out.append(_o("!"))
    elif c.focus == 2:
        out.append(_o("!!"))
    if c.name is None:
        if c.alias is None:
            out.append(_w("*"))
        elif ch(2) == 0:
            out += [_o("$"), _w(c.alias)]
        else:
            out += [_w("*"), _o("as"), _w(c.alias)]
    else:
        out.append(_w(c.name))
        if c.alias is not None and c.alias != c.name:
            out += [_o("as"), _w(c.alias)]
    if c.tag is not None:
        out += [_o(":"), _w("@" + c.tag)]
    if c.value is not None:
        out += [_o(c.vop)] + r_value(c.value)
    return out


def _as_tag_conflict(c):
    # `x as y:@T` parses as x as (y:@T)?  No: ':' (300) binds looser than 'as' (350), so
    # `x as y:@T` is (x as y):@T.  Fine for both.  `$a:@T` is ($a):@T.  No conflict.
    return False


def r_call(c, ch, root=True, allow_peel=True):
    """Tokens for a call.  `root` says whether we are in root context (outside any
    parentheses of a call), where `f() as r` implies focus."""
    caps = list(c.caps)
    children = list(c.children)
    tail = None  # tokens appended after ' > '
    eqpeel = None
    aspeel = None

    if allow_peel:
        # outermost: '>' peel of the focus capture (must be last capture) or of the last child
        options = [None]
        if caps and caps[-1].focus == 1:
            options.append("cap")
        if children:
            options.append("child")
        pick = options[ch(len(options))]
        if pick == "cap":
            fc = caps.pop()
            tail = r_cap(fc, ch, mark_focus=False)
            if ch(3) == 0:
                tail = [_o("(")] + tail + [_o(")")]
        elif pick == "child":
            chd = children.pop()
            tail = r_call(chd, ch, root=root)
            if ch(2) == 0:
                tail = [_o("(")] + tail + [_o(")")]
        # then '=' peel: last capture is a non-focus `#value=v` with default capture
        if caps:
            lc = caps[-1]
            if (
                lc.name == "#value"
                and lc.alias is None
                and lc.tag is None
                and lc.value is not None
                and lc.vop == "="
                and lc.focus == 0
                and ch(2) == 0
            ):
                eqpeel = caps.pop()
        # `f() as r`  <=>  f(!#value as r)   (root context, nothing else in the call)
        if (
            root
            and tail is None
            and eqpeel is None
            and not children
            and len(caps) == 1
            and caps[0].name == "#value"
            and caps[0].alias not in (None, "#value")
            and caps[0].tag is None
            and caps[0].value is None
            and caps[0].focus == 1
            and ch(2) == 0
        ):
            aspeel = caps.pop()

    out = [_w(c.fn)]
    if c.fntag is not None:
        out += [_o(":"), _w("@" + c.fntag)]
    items = [r_cap(x, ch) for x in caps] + [r_call(x, ch, root=False) for x in children]
    need_parens = (
        bool(items) or aspeel is not None or eqpeel is not None or tail is None or ch(2) == 0
    )
    if c.fntag is not None and need_parens and ch(2) == 0:
        out = [_o("(")] + out + [_o(")")]
    if need_parens:
        # optional currying f(a)(b): documented by test only for (a:b)(c); use sparingly
        out.append(_o("("))
        for i, it in enumerate(items):
            if i:
                out.append(_o(","))
            out += it
        out.append(_o(")"))
    if eqpeel is not None:
        out += [_o("=")] + r_value(eqpeel.value)
    if aspeel is not None:
        out += [_o("as"), _w(aspeel.alias)]
    if tail is not None:
        out += [_o(">")] + tail
    return out


def canonical(c):
    return join(r_call(c, lambda n: n - 1, allow_peel=False), lambda n: 0)


def join(tokens, ch):
    """Join tokens with generated whitespace.  Whitespace is only ever placed next to an
    operator token (next to brackets, '>', ',', 'as', ...), which is what 're-spacing' of a
    selector means; `as` always gets at least one space on both sides."""
    WS = ["", " ", "  ", "\n", "\n  ", " \n"]
    out = []
    for i, t in enumerate(tokens):
        if i:
            prev = tokens[i - 1]
            if prev == "as" or t == "as":
                out.append(WS[1 + ch(len(WS) - 1)])
            elif prev.op or t.op:
                out.append(WS[ch(len(WS))])
            else:
                out.append(" ")
        out.append(str(t))
    lead = ["", " ", "\n  "][ch(3)]
    trail = ["", " ", "\n"][ch(3)]
    return lead + "".join(out) + trail


class Chooser:
    """Deterministic choice source driven by an integer list (from Hypothesis or itertools)."""

    def __init__(self, data):
        self.data = list(data)
        self.i = 0

    def __call__(self, n):
        if n <= 1:
            return 0
        if self.i < len(self.data):
            v = self.data[self.i] % n
        else:
            v = 0
        self.i += 1
        return v


def render(c, choices, ws_choices):
    toks = r_call(c, Chooser(choices))
    return join(toks, Chooser(ws_choices))


# ---------------------------------------------------------------------------------------
# Hypothesis strategies

NAMES = ["a", "b", "c", "x", "y", "loss", "_v1"]
FNS = ["f", "g", "h", "mod.fn", "K.meth"]
ALIASES = ["p", "q", "r", "a", "x"]
TAGS = ["A", "B", "Important"]
METAS = ["#value", "#enter", "#exit", "#error", "#yield", "#receive", "#loop_i", "#endloop_i"]
VALUES = [
    ("sym", "3"),
    ("sym", "-2"),
    ("sym", "1.5"),
    ("sym", "'s t'"),
    ("sym", "'s  t'"),  # differs from the previous one only by whitespace *inside* the literal
    ("sym", "'>'"),
    ("sym", "N"),
    ("sym", "mod.K"),
]
MATCHES = [
    ("call", "every", (("sym", "2"),)),
    ("call", "lt", (("sym", "3"),)),
    ("call", "between", (("sym", "1"), ("sym", "4"))),
    ("call", "every", (("sym", "3"), ("kw", "start", ("sym", "1")))),
    ("sym", "pred"),
]


def strategies(max_depth=3, max_width=3, keywords=True):
    from hypothesis import strategies as st

    matches = MATCHES if keywords else [m for m in MATCHES if "kw" not in repr(m)]

    @st.composite
    def capture(draw, focus):
        kind = draw(st.sampled_from(["name", "name", "name", "generic", "meta"]))
        if kind == "name":
            name = draw(st.sampled_from(NAMES))
        elif kind == "meta":
            name = draw(st.sampled_from(METAS))
        else:
            name = None
        alias = draw(st.one_of(st.none(), st.sampled_from(ALIASES)))
        tag = draw(st.one_of(st.none(), st.none(), st.sampled_from(TAGS)))
        hasval = draw(st.integers(0, 3)) == 0
        value, vop = None, "="
        if hasval:
            vop = draw(st.sampled_from(["=", "~"]))
            value = draw(st.sampled_from(VALUES if vop == "=" else matches))
        return Cap(name, alias, tag, value, vop, focus)

    @st.composite
    def callnode(draw, depth_left, want_focus):
        fn = draw(st.sampled_from(FNS + ["*"]))
        fntag = draw(st.one_of(st.none(), st.none(), st.none(), st.sampled_from(TAGS)))
        ncaps = draw(st.integers(0, max_width))
        nch = draw(st.integers(0, max_width - 1)) if depth_left > 1 else 0
        # where does the focus go?
        slots = []
        if want_focus:
            slots = ["cap"] * (1 if True else 0) + ["child"] * (1 if nch else 0)
        where = draw(st.sampled_from(slots)) if slots else None
        caps = [draw(capture(0)) for _ in range(ncaps)]
        if where == "cap":
            fc = draw(capture(1))
            pos = draw(st.integers(0, len(caps)))
            # bias towards the last position (the one that can be written with '>')
            if draw(st.booleans()):
                pos = len(caps)
            caps.insert(pos, fc)
            if draw(st.integers(0, 5)) == 0:
                caps.insert(draw(st.integers(0, len(caps))), draw(capture(2)))
        children = []
        fchild = draw(st.integers(0, nch - 1)) if where == "child" else -1
        if where == "child" and draw(st.booleans()):
            fchild = nch - 1
        for i in range(nch):
            children.append(draw(callnode(depth_left - 1, i == fchild)))
        # optional trailing '#value=v' (the `f(b)=c` form)
        if draw(st.integers(0, 4)) == 0:
            v = draw(st.sampled_from(VALUES))
            tail = Cap("#value", None, None, v, "=", 0)
            if caps and caps[-1].focus == 1 and draw(st.booleans()):
                caps.insert(len(caps) - 1, tail)
            else:
                caps.append(tail)
        return CallN(fn, fntag, tuple(caps), tuple(children))

    @st.composite
    def selector_ir(draw):
        d = draw(st.integers(1, max_depth))
        want_focus = draw(st.integers(0, 5)) != 0
        c = draw(callnode(d, want_focus))
        # special documented form: f() as r
        if draw(st.integers(0, 9)) == 0:
            r = draw(st.sampled_from(ALIASES))
            inner = CallN(draw(st.sampled_from(FNS)), None, (Cap("#value", r, None, None, "=", 1),), ())
            if draw(st.booleans()):
                c = inner
            else:
                c = CallN(draw(st.sampled_from(FNS)), None, (draw(capture(0)),), (inner,))
        return c

    choices = st.lists(st.integers(0, 5), min_size=0, max_size=24)
    return selector_ir(), choices


# ---------------------------------------------------------------------------------------
# Bounded-exhaustive enumeration over a reduced alphabet


def enum_caps(alpha, width):
    """All ordered tuples of up to `width` distinct-capture-name non-focus caps."""
    out = [()]
    for k in range(1, width + 1):
        for combo in itertools.permutations(alpha, k):
            names = [(c.alias if c.alias is not None else c.name) for c in combo]
            if len(set(names)) == len(names):
                out.append(tuple(combo))
    return out


def enum_irs(max_depth, cap_alpha, fns, width_caps, width_children, focus_alpha):
    """Yield every CallN of depth <= max_depth with at most one focus."""

    capsets = enum_caps(cap_alpha, width_caps)

    def calls(d, with_focus):
        # yields CallN with exactly one focus if with_focus else none
        for fn in fns:
            child_opts_nf = [()]
            if d > 1:
                sub_nf = list(calls(d - 1, False))
                for k in range(1, width_children + 1):
                    for combo in itertools.product(sub_nf, repeat=k):
                        child_opts_nf.append(tuple(combo))
            if not with_focus:
                for caps in capsets:
                    for chs in child_opts_nf:
                        yield CallN(fn, None, caps, chs)
            else:
                # focus in own captures, at each position
                for caps in capsets:
                    for fc in focus_alpha:
                        for pos in range(len(caps) + 1):
                            nc = caps[:pos] + (fc,) + caps[pos:]
                            for chs in child_opts_nf:
                                yield CallN(fn, None, nc, chs)
                # focus in one child
                if d > 1:
                    sub_f = list(calls(d - 1, True))
                    sub_nf = list(calls(d - 1, False))
                    for caps in capsets:
                        for k in range(1, width_children + 1):
                            for fpos in range(k):
                                for fchild in sub_f:
                                    others = itertools.product(sub_nf, repeat=k - 1)
                                    for oth in others:
                                        chs = oth[:fpos] + (fchild,) + oth[fpos:]
                                        yield CallN(fn, None, caps, chs)

    yield from calls(max_depth, True)
    yield from calls(max_depth, False)
