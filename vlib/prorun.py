"""Loading and running generated programs (plain, instrumented, twin) and recording outcomes."""

import gc
import itertools
import linecache
import re

from vlib import progen as PG

_N = itertools.count()
_ADDR = re.compile(r"0x[0-9a-fA-F]+")


def nrepr(v):
    try:
        return _ADDR.sub("0x?", repr(v))
    except BaseException as e:  # noqa
        return f"<unrepr {type(e).__name__}>"


def load(source, name="f", extra=None, modname="genmod"):
    """exec `source` (after the prelude) into fresh globals; the text is registered in
    linecache so that inspect.getsource works without touching the disk."""
    full = PG.PRELUDE + "\n" + source
    fname = f"<verif-gen-{next(_N)}>"
    linecache.cache[fname] = (len(full), None, full.splitlines(True), fname)
    glb = {"__name__": modname, "LOG": []}
    if extra:
        glb.update(extra)
    exec(compile(full, fname, "exec"), glb)
    return glb[name], glb


def forget(glb):
    """Drop linecache entries of a finished case (keeps memory flat over 10^5 cases)."""
    fn = None
    import types

    for v in glb.values():
        code = v.__code__ if isinstance(v, types.FunctionType) else None
        if code is not None and code.co_filename.startswith("<verif-gen-"):
            fn = code.co_filename
            break
    if fn:
        linecache.cache.pop(fn, None)


class Hooks:
    """The twin's recorder.  `policy(name, value, hooks)` may substitute a value (C04)."""

    def __init__(self, policy=None, supplies=None):
        self.trace = []
        self.latest = {}
        self.policy = policy
        self.supplies = supplies or {}
        self.depth = 0
        self.runaway = False
        self.bind_tags = []  # parallel to the ("bind", ...) entries of trace
        self.bind_reprs = []  # repr of the bound value at binding time

    def enter(self):
        self.depth += 1
        self.trace.append(("enter",))

    def exit(self):
        self.trace.append(("exit",))
        self.depth -= 1

    def error(self, e):
        self.trace.append(("error", type(e).__name__, e))

    def bind(self, name, value, tags=()):
        if len(self.trace) > 20000:
            self.runaway = True
            raise MemoryError("reference trace overflow (runaway loop)")
        if self.policy is not None:
            value = self.policy(name, value, self)
        self.trace.append(("bind", name, value))
        self.bind_tags.append(tuple(tags))
        self.bind_reprs.append(nrepr(value))
        self.latest[name] = value
        return value

    def declare(self, name):
        if name in self.supplies:
            return self.bind(name, self.supplies[name])
        raise NameError(name)

    def loop(self, lid, names):
        self.trace.append(("loop", lid, tuple(names)))

    def endloop(self, lid, names):
        self.trace.append(("endloop", lid, tuple(names)))

    def yld(self, v):
        self.trace.append(("yield", v))
        return v

    def recv(self, v):
        self.trace.append(("recv", v))
        return v


class Timeout(BaseException):
    pass


def _alarm(signum, frame):
    raise Timeout()


class time_limit:
    """Guard against non-termination of an *instrumented* run whose untouched twin finished
    in microseconds: `seconds` of CPU time.  Only usable in the main thread."""

    def __init__(self, seconds=5.0):
        self.seconds = seconds

    def __enter__(self):
        import signal

        # CPU time of this process (ITIMER_PROF), not wall-clock time: a runaway loop burns
        # CPU, while a process that is merely descheduled on a loaded machine does not - a
        # wall-clock limit here once produced false "hang" alarms during a heavily loaded run
        # no automatic garbage collection inside the window: in a shard that has been running
        # for a long time a full collection can take seconds of CPU on its own (a thorough run
        # once reported a three-line generator as "hanging")
        self.gc_was_on = gc.isenabled()
        gc.disable()
        self.old = signal.signal(signal.SIGPROF, _alarm)
        signal.setitimer(signal.ITIMER_PROF, self.seconds, 0.05)

    def __exit__(self, *a):
        import signal

        signal.setitimer(signal.ITIMER_PROF, 0)
        signal.signal(signal.SIGPROF, self.old)
        if self.gc_was_on:
            gc.enable()


def run_call(fn_obj, fn_ir, recipe, glb, script=None, leave=None, leave_at=0):
    """Call the function (or drive the generator) and return the outcome record.

    `leave`, if given, is called just before script step number `leave_at` of a generator (0 =
    after the generator object was created and before it is first advanced): used to end a
    probe / overlay while instrumented generator frames are still alive."""
    args, kwargs, watch = PG.build_args(fn_ir, recipe, glb)
    out = {"steps": []}
    try:
        res = fn_obj(*args, **kwargs)
    except BaseException as e:  # noqa
        if isinstance(e, (KeyboardInterrupt, SystemExit, Timeout)):
            raise
        out["result"] = ("exc", type(e).__name__, nrepr(getattr(e, "args", ())))
        out["exc_obj"] = e
        res = None
    else:
        if fn_ir["gen"]:
            out["result"] = drive(res, script or [("next",)] * 3, out, leave, leave_at)
            res = None
        else:
            out["result"] = ("ret", nrepr(res))
            out["ret_obj"] = res
    out["log"] = list(glb["LOG"])
    out["watch"] = {k: nrepr(v) for k, v in watch.items()}
    out["globals"] = {k: nrepr(glb.get(k)) for k in ("G1", "G2", "GN", "GK")}
    if "get_cl" in glb:
        try:
            out["globals"]["<closure>"] = nrepr(glb["get_cl"]())
        except BaseException as e:  # noqa
            out["globals"]["<closure>"] = "<error %s>" % type(e).__name__
    return out


def drive(g, script, out, leave=None, leave_at=0):
    """Drive generator `g`; records each step in out['steps']; returns final status."""
    Boom = None
    for i, op in enumerate(script):
        if leave is not None and i == leave_at:
            leave()
        try:
            if op[0] == "next":
                v = next(g)
            elif op[0] == "send":
                v = g.send(op[1])
            elif op[0] == "throw":
                v = g.throw(ValueError("thrown"))
            elif op[0] == "close":
                g.close()
                out["steps"].append(("closed",))
                return ("closed",)
            elif op[0] == "drop":
                del g
                gc.collect(1)
                out["steps"].append(("dropped",))
                return ("dropped",)
            else:
                raise ValueError(op)
        except StopIteration as e:
            out["steps"].append(("stop", nrepr(e.value)))
            out["ret_obj"] = e.value
            return ("stop", nrepr(e.value))
        except BaseException as e:  # noqa
            if isinstance(e, (KeyboardInterrupt, SystemExit, Timeout)):
                raise
            out["steps"].append(("exc", type(e).__name__, nrepr(getattr(e, "args", ()))))
            out["exc_obj"] = e
            return ("exc", type(e).__name__, nrepr(getattr(e, "args", ())))
        out["steps"].append(("yield", nrepr(v), op[0] + (":" + nrepr(op[1]) if op[0] == "send" else "")))
        out.setdefault("yielded", []).append(v)
        if op[0] == "send":
            out.setdefault("sent", []).append(op[1])
        elif op[0] == "next":
            out.setdefault("sent", []).append(None)
    # script exhausted with the generator still suspended: drop it
    del g
    gc.collect(1)
    out["steps"].append(("left-suspended-then-dropped",))
    return ("dropped",)


def comparable(out):
    """The part of an outcome the transparency property talks about."""
    res = out["result"]
    if res[0] == "exc" and res[1] in ("UnboundLocalError", "NameError", "PteraNameError"):
        res = ("exc", "NameError-family", "")
    steps = []
    for s in out["steps"]:
        if s[0] == "exc" and s[1] in ("UnboundLocalError", "NameError", "PteraNameError"):
            s = ("exc", "NameError-family", "")
        steps.append(s)
    fam = ("UnboundLocalError", "NameError", "PteraNameError")
    # a context manager's __exit__ logs the name of the exception class it sees
    log = tuple(tuple("NameError-family" if (e[0] == "CM-exit" and x in fam) else x for x in e) for e in out["log"])
    return (res, tuple(steps), log, tuple(sorted(out["watch"].items())), tuple(sorted(out["globals"].items())))


def scripts():
    from hypothesis import strategies as st

    op = st.one_of(
        st.just(("next",)), st.just(("next",)), st.just(("next",)),
        st.integers(-2, 9).map(lambda v: ("send", v)),
        st.just(("throw",)), st.just(("close",)), st.just(("drop",)),
    )
    return st.lists(op, min_size=1, max_size=7).map(lambda ops: [("next",)] + ops if ops[0][0] == "send" else ops)
