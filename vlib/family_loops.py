"""Two plain loop functions for the end-to-end value-condition check (C12b)."""


def lo(xs, ys):
    acc = 0
    for x in xs:
        m = x * 2
        r = li(x, ys)
        acc = acc + r
    return acc


def li(p, ys):
    tot = 0
    for y in ys:
        q = p + y
        tot = tot + q
    return tot
