"""Keeping ptera's process-global state from leaking between generated cases, and
reading it for quiescence oracles."""

import linecache
import os
import sys
import traceback

_PTERA_DIR = None


def ptera_dir():
    global _PTERA_DIR
    if _PTERA_DIR is None:
        import ptera

        _PTERA_DIR = os.path.realpath(os.path.dirname(ptera.__file__))
    return _PTERA_DIR


class FnState:
    """Remembers a function's pristine code so a case can check / force quiescence."""

    def __init__(self, fn):
        self.fn = fn
        self.code = fn.__code__

    def is_clean(self):
        """Observable quiescence: original code, zero counters."""
        fn = self.fn
        problems = []
        if fn.__code__ is not self.code:
            problems.append("code object is not the original")
        st = getattr(fn, "__ptera_stack__", None)
        if st is not None:
            # (the counters are internals: if a refactoring renamed them, only the observable
            # part of the check - the code object - remains)
            count = getattr(st, "instrument_count", 0)
            if count != 0:
                problems.append(f"instrument_count={count}")
            caps = getattr(st, "captures", None)
            if hasattr(caps, "items"):
                bad = {str(k): v for k, v in caps.items() if v != 0}
                if bad:
                    problems.append(f"capture counts {bad}")
        return problems

    def force_clean(self):
        fn = self.fn
        fn.__code__ = self.code
        for attr in ("__ptera_stack__", "__ptera_info__", "__ptera_token__", "__ptera_discard__"):
            if attr in fn.__dict__:
                del fn.__dict__[attr]


def handlers_installed():
    """List of (selector, accumulator) pairs installed in the current context."""
    from ptera.overlay import HandlerCollection

    cur = HandlerCollection.current.get()
    if cur is None:
        return []
    return list(getattr(cur, "handler_pairs", ()))


def global_state_problems():
    from ptera import probe

    problems = []
    hp = handlers_installed()
    if hp:
        problems.append(f"{len(hp)} handler pair(s) still installed in the context")
    if probe.global_probes:
        problems.append(f"{len(probe.global_probes)} probe(s) left in global_probes")
    return problems


def force_global_clean():
    from ptera import probe
    from ptera.overlay import HandlerCollection

    HandlerCollection.current.set(None)
    probe.global_probes.clear()


def innermost_ptera_frame(exc):
    """(filename, funcname, lineno, source line) of the innermost traceback frame that is
    inside the ptera package, or None."""
    pd = ptera_dir()
    found = None
    tb = exc.__traceback__
    while tb is not None:
        fn = os.path.realpath(tb.tb_frame.f_code.co_filename)
        if fn.startswith(pd + os.sep):
            found = (
                os.path.basename(fn),
                tb.tb_frame.f_code.co_name,
                tb.tb_lineno,
                (linecache.getline(fn, tb.tb_lineno) or "").strip(),
            )
        tb = tb.tb_next
    return found


def innermost_frame_is_ptera(exc):
    pd = ptera_dir()
    tb = exc.__traceback__
    last = None
    while tb is not None:
        last = tb
        tb = tb.tb_next
    if last is None:
        return False
    return os.path.realpath(last.tb_frame.f_code.co_filename).startswith(pd + os.sep)


def is_deliberate(exc):
    """An exception is *deliberate* when the innermost ptera frame fails on a `raise`
    statement (ptera decided to refuse) and it is not an AssertionError; it is *accidental*
    when it came out of an attribute access, index, call or helper."""
    if isinstance(exc, AssertionError):
        return False
    fr = innermost_ptera_frame(exc)
    if fr is None:
        return True  # not from ptera at all (user callable)
    line = fr[3]
    return line.startswith("raise ") or line == "raise"


def describe_exc(exc):
    fr = innermost_ptera_frame(exc)
    where = f"{fr[0]}:{fr[1]}:{fr[2]} `{fr[3]}`" if fr else "outside ptera"
    return f"{type(exc).__name__}({str(exc)[:120]!r}) at {where}"


def exc_bucket(exc):
    fr = innermost_ptera_frame(exc)
    return f"{type(exc).__name__}@{fr[0]}:{fr[1]}:{fr[2]}" if fr else f"{type(exc).__name__}@outside"
