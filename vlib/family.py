"""The fixed family of mutually calling functions interpreted by generated call plans.

A plan node is a dict:
    {"id": int, "fn": "fa"|"fb"|"fc"|"ga", "u0": v, "w0": v, "ru": v|None, "rw": v|None,
     "pre": [child...], "post": [child...], "via": bool, "catch": bool, "raises": bool,
     "ret": v}
`via`  : the child is called through an extra un-instrumented frame;
`catch`: the parent wraps the call in try/except Boom and continues;
`raises`: the activation ends with `raise Boom(id)` instead of returning.

The functions are deliberately plain: what happens is decided by the plan.  They live in a
real file so that inspect.getsource works.  `DISPATCH` maps names to the function objects
to call (raw functions, or `tooled` copies for overlay-based checks).
"""


class Boom(Exception):
    pass


DISPATCH = {}
LOG = []  # ground-truth log written by the functions themselves (not used as the oracle)


def _call(ch):
    fn = DISPATCH[ch["fn"]]
    if ch["fn"] == "ga":
        def runner(c):
            return list(fn(c))
    else:
        runner = fn
    if ch.get("via"):
        def hop(c):
            return runner(c)
        target = hop
    else:
        target = runner
    if ch.get("catch"):
        try:
            return target(ch)
        except Boom:
            return None
    return target(ch)


def _kids(children):
    for ch in children:
        _call(ch)


def fa(node):
    u = node["u0"]
    w = node["w0"]
    _kids(node["pre"])
    if node["ru"] is not None:
        u = node["ru"]
    if node["rw"] is not None:
        w = node["rw"]
    _kids(node["post"])
    if node["raises"]:
        raise Boom(node["id"])
    return node["ret"]


def fb(node):
    # (same behaviour as fa; the rebinding of u sits in the else clause of a loop)
    u = node["u0"]
    w = node["w0"]
    _kids(node["pre"])
    for _i in ():
        pass
    else:
        if node["ru"] is not None:
            u = node["ru"]
    if node["rw"] is not None:
        w = node["rw"]
    _kids(node["post"])
    if node["raises"]:
        raise Boom(node["id"])
    return node["ret"]


def fc(node):
    # (same behaviour as fa; the rebinding of w sits in an exception handler that binds no name)
    u = node["u0"]
    w = node["w0"]
    _kids(node["pre"])
    if node["ru"] is not None:
        u = node["ru"]
    try:
        raise KeyError
    except KeyError:
        if node["rw"] is not None:
            w = node["rw"]
    _kids(node["post"])
    if node["raises"]:
        raise Boom(node["id"])
    return node["ret"]


def ga(node):
    """Generator member: yields between the child groups.  The first yield is the value of an
    unpacking assignment and absorbs a thrown ValueError (it yields again); with node["swallow"]
    a close()/drop at a yield is absorbed and the generator returns normally instead of letting
    GeneratorExit propagate."""
    u = node["u0"]
    w = node["w0"]
    _kids(node["pre"])
    while True:
        try:
            p, q = (yield u) or (0, 0)
            break
        except ValueError:
            continue  # a ValueError thrown in at this yield is absorbed: the value is yielded again
        except GeneratorExit:
            if node.get("swallow"):
                return None
            raise
    if node["ru"] is not None:
        u = node["ru"]
    if node["rw"] is not None:
        w = node["rw"]
    _kids(node["post"])
    try:
        yield w
    except GeneratorExit:
        if node.get("swallow"):
            return None
        raise
    if node["raises"]:
        raise Boom(node["id"])
    return node["ret"]


def fd(script):
    """An instrumented *driver*: runs a script of closures inside its own activation."""
    u = 1000
    for step in script:
        step()
    return u


def gst(node):
    """Starter: creates the generator described by node["g"], advances it to its first yield and
    parks it in node["box"]; the generator outlives this activation."""
    u = node["u0"]
    w = node["w0"]
    g = DISPATCH["ga"](node["g"])
    node["box"].append(g)
    next(g)
    _kids(node["pre"])
    return node["ret"]


def gco(node):
    """Consumer: advances a parked generator from inside its *own* activation."""
    u = node["u0"]
    w = node["w0"]
    _kids(node["pre"])
    g = node["box"].pop()
    next(g, None)
    next(g, None)
    _kids(node["post"])
    return node["ret"]


def _mk_h():
    def h(node):
        u = node["u0"]
        w = node["w0"]
        _kids(node["pre"])
        if node["ru"] is not None:
            u = node["ru"]
        if node["rw"] is not None:
            w = node["rw"]
        _kids(node["post"])
        if node["raises"]:
            raise Boom(node["id"])
        return node["ret"]

    return h


# two distinct functions made by one def: same module, same qualified name, same code
ha = _mk_h()
hb = _mk_h()

RAW = {"fa": fa, "fb": fb, "fc": fc, "ga": ga, "fd": fd, "gst": gst, "gco": gco, "ha": ha, "hb": hb}
DISPATCH.update(RAW)


def drive(roots):
    """The driver: call each root plan, swallowing Boom.  Returns the outcomes."""
    out = []
    for r in roots:
        try:
            out.append(("ret", _call(dict(r, catch=False))))
        except Boom as e:
            out.append(("boom", e.args[0]))
    return out
