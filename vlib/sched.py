"""Owning the thread schedule (C08).

Worker threads run under a baton: exactly one is runnable.  `sys.monitoring` delivers
INSTRUCTION events for the small critical functions of ptera and LINE events for the rest of
its activation machinery; every event seen by the thread holding the baton is a numbered
*switch point*.  A schedule is a map {switch-point index: thread to run next}; replaying the
same map reproduces the same interleaving (thread programs are deterministic).

If ptera holds a threading.Lock/RLock as a module attribute, it is replaced by a cooperative
lock whose acquire is a switch point, so a blocked thread hands the baton on instead of
dead-locking the harness.
"""

import sys
import threading

mon = sys.monitoring
TOOL = mon.DEBUGGER_ID
_SETUP = False
_DONE = None
SCHED = None


class Sched:
    def __init__(self, n, preempt):
        self.n = n
        self.preempt = dict(preempt)
        self.sem = [threading.Semaphore(0) for _ in range(n)]
        self.done = [False] * n
        self.cur = None
        self.k = 0
        self.tid = {}
        self.trace = []  # realised preemptions: (k, label, from, to)
        self.active = False
        self.blocked = set()
        self.by_label = None
        self.seen = {}

    def me(self):
        return self.tid.get(threading.get_ident())

    def point(self, label):
        if not self.active:
            return
        i = self.me()
        if i is None or i != self.cur:
            return
        k = self.k
        self.k += 1
        tgt = self.preempt.get(k)
        if self.by_label is not None:
            # replay mode: preempt at the n-th occurrence of a label (robust against shifts of
            # unrelated switch points between processes)
            n = self.seen.get(label, 0)
            self.seen[label] = n + 1
            tgt = self.by_label.get((label, n))
        if tgt is not None and tgt != i and tgt < self.n and not self.done[tgt]:
            self.trace.append((k, label, i, tgt))
            self._switch(i, tgt)

    def _switch(self, i, tgt):
        self.cur = tgt
        self.sem[tgt].release()
        self.sem[i].acquire()

    def yield_other(self):
        """Called by a thread that cannot proceed (cooperative lock busy)."""
        i = self.me()
        if i is None:
            return False
        for d in range(1, self.n):
            j = (i + d) % self.n
            if not self.done[j]:
                self._switch(i, j)
                return True
        return False

    def finish(self, i):
        self.done[i] = True
        for j in range(self.n):
            if not self.done[j]:
                self.cur = j
                self.sem[j].release()
                return

    def run(self, progs, timeout=10.0):
        global SCHED
        ths = []
        errors = [None] * self.n

        def body(i):
            self.tid[threading.get_ident()] = i
            self.sem[i].acquire()
            try:
                progs[i]()
            except BaseException as e:  # noqa
                errors[i] = e
            finally:
                self.finish(i)

        for i in range(self.n):
            t = threading.Thread(target=body, args=(i,), daemon=True)
            ths.append(t)
            t.start()
        SCHED = self
        self.active = True
        self.cur = 0
        self.sem[0].release()
        # wait for the threads; a deadlock is declared only when threads are alive and the
        # switch-point counter has not moved for `timeout` seconds (a loaded machine slows the
        # run down but keeps it moving)
        import time as _time

        last_k, last_t = -1, _time.monotonic()
        while any(t.is_alive() for t in ths):
            for t in ths:
                t.join(0.05)
            if self.k != last_k:
                last_k, last_t = self.k, _time.monotonic()
            elif _time.monotonic() - last_t > timeout:
                break
        self.active = False
        SCHED = None
        alive = [t.is_alive() for t in ths]
        if any(alive):
            # let the stuck threads run free so that they can finish and release resources
            for s in self.sem:
                for _ in range(8):
                    s.release()
            for t in ths:
                t.join(2.0)
        return (not any(alive)), errors


class CoopLock:
    """Re-entrant cooperative lock: waiting hands the baton to another thread."""

    def __init__(self):
        self.owner = None
        self.count = 0

    def acquire(self, *a, **k):
        me = threading.get_ident()
        spins = 0
        while self.owner not in (None, me):
            s = SCHED
            if s is None or not s.active or not s.yield_other():
                spins += 1
                if spins > 10000:
                    raise RuntimeError("cooperative lock: no runnable thread (deadlock)")
        self.owner = me
        self.count += 1
        return True

    def release(self):
        self.count -= 1
        if self.count == 0:
            self.owner = None

    def __enter__(self):
        return self.acquire()

    def __exit__(self, *a):
        self.release()


def _on_instr(code, off):
    s = SCHED
    if s is not None:
        s.point((code.co_name, off))


LINE_CODES = set()
LINE_FILES = set()
EXTRA_CRITICAL = set()  # co_names of every function monitored at instruction level


def _on_line(code, line, _codes=LINE_CODES, _files=LINE_FILES, _disable=mon.DISABLE):
    # (defaults bound early: the callback may still fire during interpreter shutdown)
    if code not in _codes and code.co_filename not in _files:
        return _disable
    s = SCHED
    if s is not None:
        s.point((code.co_name, "L%d" % line))


def teardown():
    """Switch the global LINE events off again (end of a shard / interpreter exit)."""
    if _SETUP:
        try:
            mon.set_events(TOOL, 0)
        except Exception:
            pass


def setup(extra_line_functions=()):
    """Install monitoring on ptera's critical functions (idempotent)."""
    global _SETUP
    import ptera.interpret  # noqa
    import ptera.overlay  # noqa
    import ptera.probe  # noqa
    import ptera.selector  # noqa
    import ptera.transform  # noqa

    global _DONE
    if _DONE is not None:
        return _DONE
    T = sys.modules["ptera.transform"]
    O = sys.modules["ptera.overlay"]
    P = sys.modules["ptera.probe"]
    S = sys.modules["ptera.selector"]
    if not _SETUP:
        mon.use_tool_id(TOOL, "verif-sched")
        mon.register_callback(TOOL, mon.events.INSTRUCTION, _on_instr)
        mon.register_callback(TOOL, mon.events.LINE, _on_line)
        _SETUP = True
    instr = [
        T.StackedTransforms.push, T.StackedTransforms.pop, T.StackedTransforms.get,
        T.SyncedStackedTransforms.push, T.SyncedStackedTransforms.pop, T.SyncedStackedTransforms._apply,
        T.TransformSet.transform_for, T.TransformSet._register,
        O._tooler, O._untooler, O.BaseOverlay.__enter__, O.BaseOverlay.__exit__,
        O.proceed.__enter__, O.proceed.__exit__,
        P.Probe._enter, P.Probe._exit,
        T._gensym,
    ]
    line = [O.autotool, O.HandlerCollection.proceed, P.Probe._install_tooling, P.Probe._uninstall_tooling,
            T.transform, S.InternedMC.__call__, O.fits_selector]
    if hasattr(P.Probe, "__exit__") and "__exit__" in P.Probe.__dict__:
        line.append(P.Probe.__dict__["__exit__"])
    # helpers the critical functions call by name (e.g. a function factored out of _apply) are
    # critical too: close the set over the names each code object refers to
    import ast
    import types

    table = {}
    for m in (T, O, P):
        for k, v in vars(m).items():
            if isinstance(v, types.FunctionType) and v.__module__ == m.__name__:
                table.setdefault(k, []).append(v)
            elif isinstance(v, type) and v.__module__ == m.__name__ and not issubclass(v, ast.NodeVisitor):
                for mk, mv in vars(v).items():
                    mv = getattr(mv, "__func__", mv)
                    if isinstance(mv, types.FunctionType):
                        table.setdefault(mk, []).append(mv)
    deny = {f.__code__ for f in line} | {T.transform.__code__}
    deny_names = {"__init__", "__call__", "select", "parse", "verify", "proceed", "accum", "values"}
    seen = {f.__code__ for f in instr}
    work = list(instr)
    while work:
        f = work.pop()
        for n in f.__code__.co_names:
            for g in table.get(n, ()):
                if g.__code__ not in seen and g.__code__ not in deny and n not in deny_names:
                    seen.add(g.__code__)
                    instr.append(g)
                    work.append(g)
    EXTRA_CRITICAL.clear()
    EXTRA_CRITICAL.update(f.__code__.co_name for f in instr)
    for fn in instr:
        mon.set_local_events(TOOL, fn.__code__, mon.events.INSTRUCTION)
    for fn in list(line) + list(extra_line_functions):
        LINE_CODES.add(fn.__code__)
        mon.set_local_events(TOOL, fn.__code__, mon.events.LINE)
    # line-level switch points inside the functions under test, *including* the instrumented
    # variants ptera compiles for them (same file name): global LINE events filtered by file
    from vlib import family

    LINE_FILES.add(family.fa.__code__.co_filename)
    mon.set_events(TOOL, mon.events.LINE)
    import atexit

    atexit.register(teardown)
    # cooperative replacement of module-level locks
    LockT = (type(threading.Lock()), type(threading.RLock()))
    replaced = {}
    for modname in ("ptera.transform", "ptera.overlay", "ptera.probe", "ptera.interpret", "ptera.selector"):
        m = sys.modules[modname]
        for k, v in list(vars(m).items()):
            if isinstance(v, LockT):
                if id(v) not in replaced:
                    replaced[id(v)] = CoopLock()
                setattr(m, k, replaced[id(v)])
    _DONE = len(replaced)
    return _DONE
