"""Generators for call plans and chain/sibling selectors over vlib.family, plus the glue
that runs them through ptera."""

import copy

from vlib import family as F
from vlib import selgen as G

FNS = ["fa", "fb", "fc"]


def plan_strategy(max_nodes=12, max_depth=5, fns=FNS, raising=True):
    from hypothesis import strategies as st

    @st.composite
    def plans(draw):
        counter = [0]

        def node(depth):
            nid = counter[0]
            counter[0] += 1
            fn = draw(st.sampled_from(fns))
            n = {
                "id": nid,
                "fn": fn,
                "u0": nid * 10 + 1,
                "w0": nid * 10 + 5,
                "ru": (nid * 10 + 2) if draw(st.integers(0, 2)) == 0 else None,
                "rw": (nid * 10 + 6) if draw(st.integers(0, 3)) == 0 else None,
                "pre": [],
                "post": [],
                "via": draw(st.integers(0, 3)) == 0,
                "catch": False,
                "raises": raising and draw(st.integers(0, 7)) == 0,
                "ret": nid * 10 + 9,
            }
            if depth < max_depth:
                for group in ("pre", "post"):
                    k = draw(st.integers(0, 2)) if depth < 3 else draw(st.integers(0, 1))
                    for _ in range(k):
                        if counter[0] >= max_nodes:
                            break
                        ch = node(depth + 1)
                        ch["catch"] = draw(st.integers(0, 2)) == 0
                        n[group].append(ch)
            return n

        nroots = draw(st.integers(1, 2))
        roots = []
        for _ in range(nroots):
            if counter[0] >= max_nodes:
                break
            roots.append(node(1))
        return roots

    return plans()


def selector_strategy(max_depth=4, fns=FNS, focus="yes", vars_=("u", "w"), metas=True):
    """Chain/sibling selectors with distinct capture names.  focus: 'yes' | 'no' | 'any'."""
    from hypothesis import strategies as st

    @st.composite
    def sels(draw):
        k = [0]
        want_focus = {"yes": True, "no": False}.get(focus)
        if want_focus is None:
            want_focus = draw(st.booleans())

        def alias():
            k[0] += 1
            return f"c{k[0]}"

        def caps(n_min=0):
            pool = list(vars_) + (["#value"] if metas and draw(st.integers(0, 4)) == 0 else [])
            n = draw(st.integers(n_min, 2))
            out = []
            for _ in range(n):
                v = draw(st.sampled_from(pool))
                out.append(G.Cap(v, alias(), None, None, "=", 0))
            return out

        def node(depth, on_path):
            fn = draw(st.sampled_from(fns))
            cs = caps()
            children = []
            nch = 0
            if depth < max_depth:
                nch = draw(st.integers(0, 2)) if depth <= 2 else draw(st.integers(0, 1))
            path_child = -1
            focus_here = False
            if on_path:
                if nch and draw(st.integers(0, 2)) > 0:
                    path_child = draw(st.integers(0, nch - 1))
                else:
                    focus_here = True
            for i in range(nch):
                children.append(node(depth + 1, i == path_child))
            if focus_here:
                fv = draw(st.sampled_from(list(vars_) + (["#value"] if metas else [])))
                fc = G.Cap(fv, alias(), None, None, "=", 1)
                cs.insert(draw(st.integers(0, len(cs))), fc)
            return G.CallN(fn, None, tuple(cs), tuple(children))

        s = node(1, want_focus)
        if not want_focus and G.n_caps(s) == 0:
            s = G.CallN(s.fn, None, (G.Cap(draw(st.sampled_from(list(vars_))), alias(), None, None, "=", 0),),
                        s.children)
        return s

    return sels()


def spelling(sel, choices=None):
    """One textual spelling of the selector IR (canonical when choices is None)."""
    if choices is None:
        return G.canonical(sel)
    return G.render(sel, choices, [1] * 4)


# ---------------------------------------------------------------------------------------
# running plans through ptera

_TOOLED = None


def tooled_family():
    """`tooled` copies of the family (made once per process)."""
    global _TOOLED
    if _TOOLED is None:
        from ptera import transform as _t  # noqa (ptera.transform is shadowed by the function)
        from ptera.overlay import proceed
        import sys

        tr = sys.modules["ptera.transform"].transform
        # ptera.tooled(f) returns f itself once f carries a __ptera_info__ attribute (even
        # None, which is what a finished probe leaves behind), so build the copies with
        # transform() directly: that is what tooled() does for a pristine function.
        _TOOLED = {k: tr(v, proceed=proceed) for k, v in F.RAW.items()}
    return _TOOLED


def env(tooled=False):
    return dict(tooled_family() if tooled else F.RAW)


def run_probing(sel_text, roots, probe_type=None, env_=None, raw=False):
    """probing(sel).values() around the driver.  Returns (events, outcomes).  With raw=True
    every event is mapped to {capture: [values...]}."""
    from ptera import probing

    F.DISPATCH.update(F.RAW)
    with probing(sel_text, env=env_ or env(), probe_type=probe_type, raw=raw).values() as vals:
        out = F.drive(copy.deepcopy(roots))
    vals = list(vals)
    if raw:
        vals = [{k: list(c.values) for k, c in ev.items()} for ev in vals]
    return vals, out


def run_overlay(sel_text, roots, total=False):
    """BaseOverlay(Immediate/Total(selector, ...)) on tooled copies."""
    from ptera.interpret import Immediate, Total
    from ptera.overlay import BaseOverlay
    from ptera.selector import select

    tf = tooled_family()
    F.DISPATCH.update(tf)
    events = []
    try:
        sel = select(sel_text, env=dict(tf))

        def trig(args):
            if total:
                events.append({k: list(c.values) for k, c in args.items()})
            else:
                events.append({k: c.value for k, c in args.items()})

        handler = Total(sel, trig) if total else Immediate(sel, trigger=trig)
        with BaseOverlay(handler):
            out = F.drive(copy.deepcopy(roots))
    finally:
        F.DISPATCH.update(F.RAW)
    return events, out


def plan_size(roots):
    def sz(n):
        return 1 + sum(sz(c) for c in n["pre"]) + sum(sz(c) for c in n["post"])

    return sum(sz(r) for r in roots)


def plan_brief(roots):
    def b(n):
        s = n["fn"] + str(n["id"])
        flags = ("v" if n.get("via") else "") + ("c" if n.get("catch") else "") + ("!" if n["raises"] else "")
        if n["ru"] is not None:
            flags += "u"
        if n["rw"] is not None:
            flags += "w"
        kids = [b(c) for c in n["pre"]] + (["|"] if n["post"] else []) + [b(c) for c in n["post"]]
        return s + (":" + flags if flags else "") + ("(" + " ".join(kids) + ")" if kids else "")

    return " ; ".join(b(r) for r in roots)
