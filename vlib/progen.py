"""Function IR, Hypothesis generator, and two renderings: (A) plain Python source, which is
what ptera sees, and (B) the reference *twin*: the same program with explicit hook calls
`H.bind / H.loop / H.endloop / H.enter / H.exit / H.error / H.yld / H.recv` at every
binding site, written with nothing but Python's own semantics.  Nothing here imports ptera.

IR (plain tuples / lists so that repr() is a stable key)
  expressions   ("int",n) ("var",v) ("bin",op,l,r) ("cmp",op,l,r) ("E",k,e) ("len",it)
                ("walrus",v,e) ("ifexp",c,a,b) ("idx",v,e) ("list",[e]) ("tuple",[e])
                ("lam",e) ("comp",e,it) ("attr",o,x) ("call",g,e) ("neg",e)
  iterables     ("var","xs") ("range",n) ("list",[e]) ("tuple",[e]) ("genexp",it)
                ("dict",[(k,v)]) ("str",s) ("comp",e,it)
  targets       ("n",v) ("t",[t]) ("l",[t]) ("star",t) ("attr",o,x) ("sub",v,e)
  statements    ("assign",[t...],e) ("aug",t,op,e) ("ann",v,ann,e|None)
                ("for",t,it,body,orelse) ("while",c,body,orelse) ("if",c,body,orelse)
                ("try",body,[(exc,as,body)],orelse,final) ("with",k,e,t|None,body)
                ("import",text,[bound names]) ("def",g,captured) ("class",K,e)
                ("expr",e) ("return",e|None) ("raise",e) ("yield",e) ("yieldassign",v,e)
                ("yieldfrom",it) ("break",) ("continue",) ("pass",) ("del",v) ("assert",e)
                ("global",v) ("nonlocal",v)
  function      dict(name, params=[(name, kind, default)], body, gen, closure=[names])
"""

PRELUDE = '''
class Boom(Exception):
    pass


class Obj:
    def __init__(self, **kw):
        self.__dict__.update(kw)

    def __repr__(self):
        return "Obj(" + ", ".join(f"{k}={v!r}" for k, v in sorted(self.__dict__.items())) + ")"


class Touchy(Obj):
    """An object whose == is anything but inert: it logs the comparison and refuses to give a
    truth value for a foreign operand (numpy-array style)."""

    def __eq__(self, other):
        LOG.append(("Touchy.__eq__", type(other).__name__))
        if not isinstance(other, Touchy):
            raise TypeError("comparison with a foreign object")
        return self.__dict__ == other.__dict__

    __hash__ = None


def E(k, v):
    if len(LOG) > 5000:
        raise MemoryError("side-effect log overflow (runaway loop)")
    LOG.append(("E", k, _r(v)))
    return v


def _r(v):
    try:
        return repr(v)
    except BaseException as e:
        return "<unrepr %s>" % type(e).__name__


class CM:
    def __init__(self, k, v, swallow=False):
        self.k, self.v, self.swallow = k, v, swallow

    def __enter__(self):
        LOG.append(("CM-enter", self.k))
        return self.v

    def __exit__(self, t, e, tb):
        LOG.append(("CM-exit", self.k, None if t is None else t.__name__))
        return self.swallow and t is Boom


def zip2(xs):
    return zip(xs, xs)


G1 = 100
G2 = 200
GN = None
GK = 0
'''

IND = "    "

# ---------------------------------------------------------------------------------------
# rendering


def r_expr(e, twin):
    k = e[0]
    if k == "int":
        return repr(e[1])
    if k == "var":
        return e[1]
    if k == "neg":
        return f"(-{r_expr(e[1], twin)})"
    if k == "bin":
        return f"({r_expr(e[2], twin)} {e[1]} {r_expr(e[3], twin)})"
    if k == "cmp":
        return f"({r_expr(e[2], twin)} {e[1]} {r_expr(e[3], twin)})"
    if k == "E":
        return f"E({e[1]!r}, {r_expr(e[2], twin)})"
    if k == "len":
        return f"len({r_expr(e[1], twin)})"
    if k == "walrus":
        inner = r_expr(e[2], twin)
        if twin:
            inner = f"H.bind({e[1]!r}, {inner})"
        return f"({e[1]} := {inner})"
    if k == "ifexp":
        return f"({r_expr(e[2], twin)} if {r_expr(e[1], twin)} else {r_expr(e[3], twin)})"
    if k == "idx":
        return f"{e[1]}[{r_expr(e[2], twin)}]"
    if k == "list":
        return "[" + ", ".join(r_expr(x, twin) for x in e[1]) + "]"
    if k == "tuple":
        return "(" + "".join(r_expr(x, twin) + ", " for x in e[1]) + ")"
    if k == "lam":
        return f"(lambda q_: q_ + 1)({r_expr(e[1], twin)})"
    if k == "comp":
        return f"[{r_expr(e[1], twin)} for cv_ in {r_expr(e[2], twin)}]"
    if k == "genexp":
        return f"(cv_ for cv_ in {r_expr(e[1], twin)})"
    if k == "mlstr":
        # a string literal spanning two source lines; the second line starts with blanks that are
        # part of the *value* (they must survive whatever is done to the function's source text)
        return 'len("""' + e[1] + '\n' + " " * e[2] + e[1] + '""")'
    if k == "lam2":
        # two sibling lambdas on one line that differ only in a constant (0.0 / -0.0) or only
        # one level deeper
        a, b = ("0.0", "-0.0") if e[2] == 0 else ("(lambda: 1)()", "(lambda: 2)()")
        return f"((lambda: {a}) if {r_expr(e[1], twin)} else (lambda: {b}))()"
    if k == "gsum":
        # a generator expression consumed on the spot; its element may hold a walrus, which binds
        # a variable of the enclosing function (PEP 572)
        return f"sum({r_expr(e[1], twin)} for cv_ in {r_expr(e[2], twin)})"
    if k == "dict":
        return "{" + ", ".join(f"{r_expr(a, twin)}: {r_expr(b, twin)}" for a, b in e[1]) + "}"
    if k == "str":
        return repr(e[1])
    if k == "range":
        return f"range({r_expr(e[1], twin)})"
    if k == "attr":
        return f"{e[1]}.{e[2]}"
    if k == "call":
        return f"{e[1]}({r_expr(e[2], twin)})"
    raise ValueError(e)


def r_target(t, twin):
    k = t[0]
    if k == "n":
        return t[1]
    if k == "t":
        return "(" + "".join(r_target(x, twin) + ", " for x in t[1]) + ")"
    if k == "l":
        return "[" + ", ".join(r_target(x, twin) for x in t[1]) + "]"
    if k == "star":
        return "*" + r_target(t[1], twin)
    if k == "attr":
        return f"{t[1]}.{t[2]}"
    if k == "sub":
        return f"{t[1]}[{r_expr(t[2], twin)}]"
    raise ValueError(t)


def target_names(t):
    """Names bound by a target, in binding (left-to-right) order."""
    k = t[0]
    if k == "n":
        return [t[1]]
    if k in ("t", "l"):
        out = []
        for x in t[1]:
            out += target_names(x)
        return out
    if k == "star":
        return target_names(t[1])
    return []


def ann_tags(ann):
    """Tag names carried by an annotation text ('"@A & @B"', 'tag.A & tag.B', 'int' -> ())."""
    if not ann:
        return ()
    a = ann.strip()
    if a.startswith('"@') or a.startswith("'@"):
        parts = [p.strip() for p in a.strip("\"'").split("&")]
        return tuple(sorted({p[1:] for p in parts if p.startswith("@")}))
    if a.startswith("tag.") or a.startswith("TS_AB"):
        # TS_AB is a named, shared tag set (tag.A & tag.B) provided by the check's globals
        out = set()
        for p in a.split("&"):
            p = p.strip()
            out |= {"A", "B"} if p == "TS_AB" else {p[4:]}
        return tuple(sorted(out))
    return ()


def _has_nested_unpack(t):
    return t[0] in ("t", "l") and any(
        x[0] in ("t", "l") or (x[0] == "star" and x[1][0] in ("t", "l")) for x in t[1])


def _twin_unpack(t, rhs, ind, twin, ctx):
    ctx["tw"] = ctx.get("tw", 0)
    parts, todo = [], []
    for x in t[1]:
        ctx["tw"] += 1
        name = f"tw{ctx['tw']}_"
        if x[0] == "star":
            parts.append("*" + name)
            todo.append((x[1], name))
        else:
            parts.append(name)
            todo.append((x, name))
    out = [f"{ind}[" + ", ".join(parts) + f"] = {rhs}"]
    for x, name in todo:
        if x[0] in ("t", "l"):
            out += _twin_unpack(x, name, ind, twin, ctx)
        else:
            out.append(f"{ind}{r_target(x, twin)} = {name}")
            out += _binds(target_names(x), ind)
    return out


def _binds(names, ind, tags=None):
    out = []
    for n in names:
        t = (tags or {}).get(n)
        if t:
            out.append(f"{ind}{n} = H.bind({n!r}, {n}, {tuple(t)!r})")
        else:
            out.append(f"{ind}{n} = H.bind({n!r}, {n})")
    return out


def r_stmts(stmts, ind, twin, ctx):
    out = []
    for s in stmts:
        out += r_stmt(s, ind, twin, ctx)
    if not out:
        out = [ind + "pass"]
    return out


def r_stmt(s, ind, twin, ctx):
    k = s[0]
    if k == "assign":
        targets, e = s[1], s[2]
        rhs = r_expr(e, twin)
        if twin and len(targets) == 1 and targets[0][0] in ("attr", "sub") and ctx.get("bind_stores"):
            t = targets[0]
            label = f"{t[1]}.{t[2]}" if t[0] == "attr" else None
            if label:
                rhs = f"H.bind({label!r}, {rhs})"
        if twin and len(targets) == 1 and _has_nested_unpack(targets[0]):
            # Python unpacks one level at a time: the entries before a nested target are stored
            # (bound) before the nested value is unpacked, even if that then fails
            return _twin_unpack(targets[0], rhs, ind, twin, ctx)
        line = ind + " = ".join(r_target(t, twin) for t in targets) + " = " + rhs
        out = [line]
        if twin:
            for t in targets:
                out += _binds(target_names(t), ind)
        return out
    if k == "aug":
        t, op, e = s[1], s[2], s[3]
        out = [f"{ind}{r_target(t, twin)} {op}= {r_expr(e, twin)}"]
        if twin and t[0] == "n":
            out += _binds([t[1]], ind)
        return out
    if k == "ann":
        v, ann, e = s[1], s[2], s[3]
        if e is None:
            if twin and (ctx.get("declared") is None or v in ctx["declared"]):
                # declared-only and instrumented: must be supplied from outside
                return [f"{ind}{v} = H.declare({v!r})"]
            return [f"{ind}{v}: {ann}"]
        out = [f"{ind}{v}: {ann} = {r_expr(e, twin)}"]
        if twin:
            out += _binds([v], ind, {v: ann_tags(ann)})
        return out
    if k == "for":
        t, it, body, orelse = s[1], s[2], s[3], s[4]
        names = target_names(t)
        out = [f"{ind}for {r_target(t, twin)} in {r_expr(it, twin)}:"]
        if twin:
            lid = ctx["loops"]
            ctx["loops"] += 1
            out.append(f"{ind}{IND}H.loop({lid}, {names!r})")
            out.append(f"{ind}{IND}try:")
            inner = _binds(names, ind + IND + IND) + r_stmts(body, ind + IND + IND, twin, ctx)
            out += inner
            out.append(f"{ind}{IND}finally:")
            out.append(f"{ind}{IND}{IND}H.endloop({lid}, {names!r})")
        else:
            out += r_stmts(body, ind + IND, twin, ctx)
        if orelse:
            out.append(f"{ind}else:")
            out += r_stmts(orelse, ind + IND, twin, ctx)
        return out
    if k == "while":
        c, body, orelse = s[1], s[2], s[3]
        out = [f"{ind}while {r_expr(c, twin)}:"] + r_stmts(body, ind + IND, twin, ctx)
        if orelse:
            out.append(f"{ind}else:")
            out += r_stmts(orelse, ind + IND, twin, ctx)
        return out
    if k == "if":
        c, body, orelse = s[1], s[2], s[3]
        out = [f"{ind}if {r_expr(c, twin)}:"] + r_stmts(body, ind + IND, twin, ctx)
        if orelse:
            out.append(f"{ind}else:")
            out += r_stmts(orelse, ind + IND, twin, ctx)
        return out
    if k == "try":
        body, handlers, orelse, final = s[1], s[2], s[3], s[4]
        out = [f"{ind}try:"] + r_stmts(body, ind + IND, twin, ctx)
        for exc, asname, hbody in handlers:
            head = "except" + (f" {exc}" if exc else "") + (f" as {asname}" if asname else "") + ":"
            out.append(ind + head)
            hb = []
            if twin and asname:
                hb += _binds([asname], ind + IND)
            hb += r_stmts(hbody, ind + IND, twin, ctx)
            out += hb
        if orelse:
            out.append(f"{ind}else:")
            out += r_stmts(orelse, ind + IND, twin, ctx)
        if final:
            out.append(f"{ind}finally:")
            out += r_stmts(final, ind + IND, twin, ctx)
        return out
    if k == "with":
        key, e, t, body = s[1], s[2], s[3], s[4]
        head = f"{ind}with CM({key!r}, {r_expr(e, twin)})" + (f" as {r_target(t, twin)}" if t else "")
        t2 = None
        if len(s) > 5 and s[5]:
            # a second item in the same with statement
            key2, e2, t2 = s[5]
            head += f", CM({key2!r}, {r_expr(e2, twin)}) as {r_target(t2, twin)}"
        head += ":"
        inner = []
        if twin and t:
            inner += _binds(target_names(t), ind + IND)
        if twin and t2:
            inner += _binds(target_names(t2), ind + IND)
        inner += r_stmts(body, ind + IND, twin, ctx)
        return [head] + inner
    if k == "import":
        out = [ind + s[1]]
        if twin:
            out += _binds(s[2], ind)
        return out
    if k == "def":
        g, cap = s[1], s[2]
        body = f"return q_ + {cap}" if cap else "return q_ * 2"
        # (an inner def with a default value: decorators and defaults belong to f's scope, the
        # inner body does not)
        sig = "q_, d_=1" if len(s) > 3 and s[3] else "q_"
        return [f"{ind}def {g}({sig}):", f"{ind}{IND}{body}"]
    if k == "class":
        if len(s) > 3 and s[3]:
            # a global declaration inside the class body belongs to the class body
            return [f"{ind}class {s[1]}:", f"{ind}{IND}global GK", f"{ind}{IND}GK = {r_expr(s[2], twin)}"]
        return [f"{ind}class {s[1]}:", f"{ind}{IND}z = {r_expr(s[2], twin)}"]
    if k == "doc":
        return [f'{ind}"""docstring of f."""']
    if k == "expr":
        return [ind + r_expr(s[1], twin)]
    if k == "return":
        if s[1] is None:
            return [ind + ("return H.bind('#value', None)" if twin else "return")]
        return [ind + (f"return H.bind('#value', {r_expr(s[1], twin)})" if twin else f"return {r_expr(s[1], twin)}")]
    if k == "raise":
        return [f"{ind}raise Boom({r_expr(s[1], twin)})"]
    if k == "yield":
        if twin:
            return [f"{ind}H.recv((yield H.yld({r_expr(s[1], twin)})))"]
        return [f"{ind}yield {r_expr(s[1], twin)}"]
    if k == "yieldassign":
        if twin:
            return [f"{ind}{s[1]} = H.recv((yield H.yld({r_expr(s[2], twin)})))"] + _binds([s[1]], ind)
        return [f"{ind}{s[1]} = yield {r_expr(s[2], twin)}"]
    if k == "yieldfrom":
        return [f"{ind}yield from {r_expr(s[1], twin)}"]
    if k in ("break", "continue", "pass"):
        return [ind + k]
    if k == "del":
        return [f"{ind}del {s[1]}"]
    if k == "assert":
        return [f"{ind}assert {r_expr(s[1], twin)}"]
    if k in ("global", "nonlocal"):
        return [f"{ind}{k} {s[1]}"]
    if k == "anntarget":
        # a bare annotation on an attribute / subscript target: evaluates the object, stores nothing
        return [f"{ind}{s[1]}: int"]
    if k == "declin":
        # a global / nonlocal declaration that sits inside a compound statement (always the first
        # statement of the function, so that no use of the name precedes it)
        how, (dk, dv) = s[1], s[2]
        d = f"{ind}{IND}{dk} {dv}"
        if how == "except":
            return [f"{ind}try:", f"{ind}{IND}pass", f"{ind}except Boom:", d]
        if how == "finally":
            return [f"{ind}try:", f"{ind}{IND}pass", f"{ind}finally:", d]
        if how == "if":
            return [f"{ind}if 0:", d]
        if how == "else":
            return [f"{ind}while 0:", f"{ind}{IND}pass", f"{ind}else:", d]
        if how == "try":
            return [f"{ind}try:", d, f"{ind}finally:", f"{ind}{IND}pass"]
        raise ValueError(s)
    raise ValueError(s)


PARAM_ORDER = {"posonly": 0, "pos": 1, "kwonly": 2, "var": 3, "kw": 4}


def r_signature(fn):
    parts = []
    ps = fn["params"]
    posonly = [p for p in ps if p[1] == "posonly"]
    pos = [p for p in ps if p[1] == "pos"]
    var = [p for p in ps if p[1] == "var"]
    kwonly = [p for p in ps if p[1] == "kwonly"]
    kw = [p for p in ps if p[1] == "kw"]

    def one(p):
        ann = f": {p[3]}" if len(p) > 3 and p[3] else ""
        if p[2] is not None:
            return f"{p[0]}{ann}={p[2]}" if not ann else f"{p[0]}{ann} = {p[2]}"
        return f"{p[0]}{ann}"

    for p in posonly:
        parts.append(one(p))
    if posonly:
        parts.append("/")
    for p in pos:
        parts.append(one(p))
    if var:
        parts.append("*" + var[0][0])
    elif kwonly:
        parts.append("*")
    for p in kwonly:
        parts.append(one(p))
    if kw:
        parts.append("**" + kw[0][0])
    return ", ".join(parts)


def param_bind_order(fn):
    """ptera binds parameters as: positional-only, positional, keyword-only, *var, **kw."""
    return [p[0] for p in sorted(fn["params"], key=lambda p: PARAM_ORDER[p[1]])]


def render(fn, twin=False, bind_stores=False, declared=None, entry_declares=()):
    """Source text of a module defining the function (and its factory for closures).
    declared: names whose bare annotation is instrumented (None: all); entry_declares:
    instrumented undefined globals, fetched at entry like ptera does."""
    ctx = {"loops": 0, "bind_stores": bind_stores, "declared": declared}
    name = fn["name"]
    base = IND if fn.get("closure") else ""
    lines = []
    if fn.get("closure"):
        lines.append(f"def make_{name}():")
        for cname, cval in fn["closure"]:
            lines.append(f"{IND}{cname} = {cval!r}")
    ret = f" -> {fn['returns']}" if fn.get("returns") else ""
    lines.append(f"{base}def {name}({r_signature(fn)}){ret}:")
    ind = base + IND
    decls = [s for s in fn["body"] if s[0] in ("global", "nonlocal")]
    rest = [s for s in fn["body"] if s[0] not in ("global", "nonlocal")]
    if twin:
        for d in decls:
            lines += r_stmt(d, ind, twin, ctx)
        lines.append(f"{ind}H.enter()")
        lines.append(f"{ind}try:")
        for ug in sorted(entry_declares):
            lines.append(f"{ind}{IND}{ug} = H.declare({ug!r})")
        ptags = {p[0]: ann_tags(p[3]) for p in fn["params"] if len(p) > 3}
        lines += _binds(param_bind_order(fn), ind + IND, ptags)
        lines += r_stmts(rest, ind + IND, twin, ctx)
        if not rest or rest[-1][0] != "return":
            lines.append(f"{ind}{IND}return H.bind('#value', None)")
        lines.append(f"{ind}except BaseException as e_:")
        lines.append(f"{ind}{IND}H.error(e_)")
        lines.append(f"{ind}{IND}raise")
        lines.append(f"{ind}finally:")
        lines.append(f"{ind}{IND}H.exit()")
    else:
        lines += r_stmts(fn["body"], ind, twin, ctx)
    if fn.get("closure"):
        lines.append(f"{IND}def get_cl():")
        lines.append(f"{IND}{IND}return ({', '.join(c for c, _ in fn['closure'])}, )")
        lines.append(f"{IND}return {name}, get_cl")
        lines.append(f"{name}, get_cl = make_{name}()")
    return "\n".join(lines) + "\n"


# ---------------------------------------------------------------------------------------
# static facts about a generated function


def walk_stmts(stmts):
    for s in stmts:
        yield s
        k = s[0]
        if k == "for":
            yield from walk_stmts(s[3])
            yield from walk_stmts(s[4])
        elif k == "while":
            yield from walk_stmts(s[2])
            yield from walk_stmts(s[3])
        elif k == "if":
            yield from walk_stmts(s[2])
            yield from walk_stmts(s[3])
        elif k == "try":
            yield from walk_stmts(s[1])
            for _, _, hb in s[2]:
                yield from walk_stmts(hb)
            yield from walk_stmts(s[3])
            yield from walk_stmts(s[4])
        elif k == "with":
            yield from walk_stmts(s[4])


def walk_exprs(stmts):
    def ex(e):
        if not isinstance(e, tuple):
            return
        yield e
        for x in e[1:]:
            if isinstance(x, tuple):
                yield from ex(x)
            elif isinstance(x, list):
                for y in x:
                    if isinstance(y, tuple) and len(y) == 2 and isinstance(y[0], tuple) and not isinstance(y[0][0], tuple) and y[0][0] in _EK:
                        yield from ex(y[0])
                        yield from ex(y[1])
                    else:
                        yield from ex(y)

    for s in walk_stmts(stmts):
        for part in s[1:]:
            if isinstance(part, tuple):
                yield from ex(part)
            elif isinstance(part, list):
                for p in part:
                    if isinstance(p, tuple):
                        yield from ex(p)


_EK = {"int", "var", "bin", "cmp", "E", "len", "walrus", "ifexp", "idx", "list", "tuple", "lam", "comp", "genexp", "gsum", "lam2", "mlstr",
       "dict", "str", "range", "attr", "call", "neg"}


def bound_names(fn):
    """{name: set of binding forms} for names bound by the function's own body."""
    out = {}

    def add(n, form):
        out.setdefault(n, set()).add(form)

    for p in fn["params"]:
        add(p[0], "param")
    for s in walk_stmts(fn["body"]):
        k = s[0]
        if k == "assign":
            for t in s[1]:
                form = "assign" if t[0] == "n" else ("tuple" if t[0] in ("t", "l") else None)
                if len(s[1]) > 1:
                    form = "chained" if t[0] == "n" else form
                for n in target_names(t):
                    add(n, form or "assign")
        elif k == "aug" and s[1][0] == "n":
            add(s[1][1], "aug")
        elif k == "ann" and s[3] is not None:
            add(s[1], "ann")
        elif k == "for":
            for n in target_names(s[1]):
                add(n, "for")
        elif k == "with" and (s[3] or (len(s) > 5 and s[5])):
            for n in target_names(s[3]) if s[3] else []:
                add(n, "with")
            if len(s) > 5 and s[5]:
                for n in target_names(s[5][2]):
                    add(n, "with")
        elif k == "try":
            for exc, asname, _ in s[2]:
                if asname:
                    add(asname, "except")
        elif k == "import":
            for n in s[2]:
                add(n, "import")
        elif k == "yieldassign":
            add(s[1], "yieldassign")
    for e in walk_exprs(fn["body"]):
        if e[0] == "walrus":
            add(e[1], "walrus")
    return out


def declared_scope_names(fn):
    return {s[1] for s in fn["body"] if s[0] in ("global", "nonlocal")} | {
        s[2][1] for s in fn["body"] if s[0] == "declin"}


def features(fn):
    f = set()
    for s in walk_stmts(fn["body"]):
        k = s[0]
        f.add(k)
        if k == "assign":
            if len(s[1]) > 1:
                f.add("chained")
            for t in s[1]:
                if t[0] in ("t", "l"):
                    f.add("unpack")
                    if any(x[0] == "star" for x in t[1]):
                        f.add("starred")
                    if any(x[0] in ("t", "l") for x in t[1]):
                        f.add("nested-unpack")
                    if t[0] == "l":
                        f.add("list-target")
                if t[0] == "attr":
                    f.add("attr-store")
                if t[0] == "sub":
                    f.add("sub-store")
        if k == "for":
            if s[1][0] != "n":
                f.add("for-unpack")
            if s[4]:
                f.add("for-else")
        if k == "try":
            if s[4]:
                f.add("finally")
            if any(h[1] for h in s[2]):
                f.add("except-as")
        if k == "with" and s[3]:
            f.add("with-as")
    for e in walk_exprs(fn["body"]):
        if e[0] in ("walrus", "lam", "comp", "genexp", "ifexp"):
            f.add(e[0])
    if fn["gen"]:
        f.add("generator")
    if fn.get("closure"):
        f.add("closure")
    if any(p[1] in ("kwonly", "var", "kw", "posonly") for p in fn["params"]):
        f.add("fancy-params")
    return f


# ---------------------------------------------------------------------------------------
# Hypothesis strategy

LOCALS = ["a", "b", "c", "d"]


class Flags:
    """Generator feature switches (confirmed findings are excluded by construction)."""

    def __init__(self, **kw):
        self.starred = True
        self.nonindexable_unpack = True
        self.list_target = True
        self.sub_side_effect = True   # d[E(..)] = v   (index evaluated twice under ptera: R3)
        self.except_only_names = True
        self.nested_class = True
        self.for_attr_target = True
        self.global_decl = False
        self.nonlocal_decl = False
        self.closure = True
        self.yield_in_rhs = True
        self.walrus_in_rhs = True
        self.with_as = True
        self.import_dotted = True
        self.generators = True
        self.yield_from = True
        self.bare_ann = False
        self.walrus_in_comp = False
        self.walrus_in_genexp = False
        self.own_name_local = False
        self.tags = False
        self.unbound_reads = True
        self.finally_return = True
        self.max_stmts = 10
        self.max_depth = 3
        self.__dict__.update(kw)


def functions(flags=None, want_gen=None):
    from hypothesis import strategies as st

    fl = flags or Flags()

    @st.composite
    def fn_strategy(draw):
        gen = draw(st.integers(0, 3)) == 0 if want_gen is None else want_gen
        if not fl.generators:
            gen = False
        closure = fl.closure and draw(st.integers(0, 5)) == 0
        st_budget = [fl.max_stmts]
        counters = {"E": 0, "cm": 0, "wk": 0, "g": 0, "K": 0}
        excluded = []
        # ----- parameters
        params = [("x", "pos", None), ("xs", "pos", None)]
        shape = draw(st.integers(0, 7))
        if shape == 1:
            params.append(("y", "pos", "2"))
        elif shape == 2:
            params = [("x", "posonly", None), ("xs", "pos", None), ("y", "kwonly", "3")]
        elif shape == 3:
            params += [("rest", "var", None), ("k", "kwonly", "4"), ("kw", "kw", None)]
        elif shape == 4:
            params.append(("o", "pos", None))
        elif shape == 5:
            params.append(("o", "pos", None))
            params.append(("y", "pos", "5"))
        # default values that are expressions evaluated where the def statement runs: they may
        # mention the enclosing function's variable, a global, or have a side effect
        if draw(st.integers(0, 3)) == 0:
            alts = ["G1 - 97", "E('dflt', 6)"] + (["cl * 2", "cl"] if closure else [])
            params = [(p[0], p[1], draw(st.sampled_from(alts))) + tuple(p[3:]) if p[2] is not None else p
                      for p in params]
        pnames = [p[0] for p in params]
        int_params = [n for n in pnames if n in ("x", "y", "k")]
        has_o = "o" in pnames
        closure_vars = [("cl", 7)] if closure else []

        def ekey():
            counters["E"] += 1
            return f"e{counters['E']}"

        def int_expr(bound, depth=0):
            opts = ["int", "int", "var", "var", "var"]
            if depth < 2:
                opts += ["bin", "bin", "E", "E", "cmp", "len", "ifexp", "lam", "walrus", "neg", "idxxs", "G", "GN", "call", "gsum", "lam2", "mlstr"]
                if has_o:
                    opts.append("attr")
                if closure:
                    opts.append("cl")
            k = draw(st.sampled_from(opts))
            if k == "int":
                return ("int", draw(st.integers(-3, 9)))
            if k == "var":
                pool = [v for v in bound if v in LOCALS or v in int_params]
                if fl.unbound_reads and draw(st.integers(0, 24)) == 0:
                    pool = LOCALS
                if not pool:
                    return ("int", draw(st.integers(0, 5)))
                return ("var", draw(st.sampled_from(sorted(pool))))
            if k == "bin":
                op = draw(st.sampled_from(["+", "-", "*", "//", "%", "+", "-"]))
                return ("bin", op, int_expr(bound, depth + 1), int_expr(bound, depth + 1))
            if k == "cmp":
                return ("cmp", draw(st.sampled_from(["<", "==", ">=", "!="])), int_expr(bound, depth + 1),
                        int_expr(bound, depth + 1))
            if k == "E":
                return ("E", ekey(), int_expr(bound, depth + 1))
            if k == "len":
                return ("len", ("var", "xs"))
            if k == "ifexp":
                return ("ifexp", int_expr(bound, depth + 1), int_expr(bound, depth + 1), int_expr(bound, depth + 1))
            if k == "lam":
                return ("lam", int_expr(bound, depth + 1))
            if k == "neg":
                return ("neg", int_expr(bound, depth + 1))
            if k == "walrus":
                v = draw(st.sampled_from(LOCALS))
                if v in excluded:
                    return ("int", 1)
                e = ("walrus", v, int_expr(bound, depth + 1))
                bound.add(v)
                return e
            if k == "idxxs":
                return ("idx", "xs", ("int", draw(st.integers(0, 2))))
            if k == "G":
                return ("var", draw(st.sampled_from(["G1", "G2"])))
            if k == "mlstr":
                return ("mlstr", draw(st.sampled_from(["ab", "x"])), draw(st.sampled_from([0, 4, 8, 12])))
            if k == "lam2":
                return ("lam2", int_expr(bound, depth + 1), draw(st.integers(0, 1)))
            if k == "gsum":
                v = draw(st.sampled_from(LOCALS))
                if v in excluded or not fl.walrus_in_genexp:
                    return ("int", 3)
                bound.add(v)
                return ("gsum", ("walrus", v, ("bin", "*", ("var", "cv_"), ("int", draw(st.integers(1, 3))))),
                        ("list", [("int", draw(st.integers(0, 4))) for _ in range(draw(st.integers(0, 3)))]))
            if k == "GN":
                # a global whose value is None (the `HOOK = None` idiom)
                return ("ifexp", ("var", "GN"), ("int", 1), ("int", draw(st.integers(0, 3))))
            if k == "attr":
                return ("attr", "o", "x")
            if k == "cl":
                return ("var", "cl")
            if k == "call":
                gs = [v for v in bound if v.startswith("g_")]
                if not gs:
                    return ("int", 2)
                return ("call", draw(st.sampled_from(sorted(gs))), int_expr(bound, depth + 1))
            return ("int", 0)

        def iter_expr(bound):
            k = draw(st.sampled_from(["xs", "xs", "range", "list", "tuple", "genexp", "dict", "str", "comp"]))
            if k == "xs":
                return ("var", "xs")
            if k == "range":
                return ("range", ("int", draw(st.integers(0, 3))))
            if k in ("list", "tuple"):
                n = draw(st.integers(0, 3))
                return (k, [int_expr(bound, 1) for _ in range(n)])
            if k == "genexp":
                return ("genexp", ("var", "xs"))
            if k == "dict":
                n = draw(st.integers(0, 2))
                return ("dict", [(("int", i + 1), int_expr(bound, 1)) for i in range(n)])
            if k == "str":
                return ("str", draw(st.sampled_from(["", "p", "pq"])))
            return ("comp", ("bin", "+", ("var", "cv_"), ("int", 1)), ("var", "xs"))

        def unpack_source(n, bound, nested=False):
            k = draw(st.sampled_from(["tuple", "tuple", "list", "xs", "genexp", "dict", "str", "wrong"]))
            if not fl.nonindexable_unpack and k in ("genexp", "dict", "xs", "wrong"):
                k = "tuple"
            if nested:
                k = "tuple"
            if k in ("tuple", "list"):
                return (k, [int_expr(bound, 1) for _ in range(n)])
            if k == "xs":
                return ("var", "xs")
            if k == "genexp":
                return ("genexp", ("list", [int_expr(bound, 2) for _ in range(n)]))
            if k == "dict":
                return ("dict", [(("int", i + 1), ("int", i + 10)) for i in range(n)])
            if k == "str":
                return ("str", "pqrs"[:n])
            return ("tuple", [int_expr(bound, 1) for _ in range(max(0, n + draw(st.sampled_from([-1, 1]))))])

        taken = []
        t2_shape = [2, 1]

        def name_target():
            pool = [v for v in LOCALS if v not in excluded and v not in taken] or [v for v in LOCALS if v not in taken]
            if "x" not in taken and pool:
                pool = pool * 3 + ["x"]  # now and then a parameter is rebound
                for star in ("rest", "kw", "k"):
                    if star in pnames and star not in taken:
                        pool.append(star)
            v = draw(st.sampled_from(pool or ["a"]))
            if fl.own_name_local and "f" not in taken and draw(st.integers(0, 39)) == 0:
                v = "f"  # a local variable that has the name of the function itself
            taken.append(v)
            return ("n", v)

        def target(bound, allow_unpack=True):
            del taken[:]
            k = draw(st.sampled_from(["n", "n", "n", "t", "t2", "l", "star", "attr", "sub"]))
            if not allow_unpack and k in ("t", "t2", "l", "star"):
                k = "n"
            if k == "l" and not fl.list_target:
                k = "t"
            if k == "star" and not fl.starred:
                k = "t"
            if k == "attr" and not has_o:
                k = "n"
            if k == "n":
                return name_target(), 0
            if k == "t":
                n = draw(st.integers(1, 3))
                ts = [name_target() for _ in range(n)]
                return ("t", ts), n
            if k == "l":
                n = draw(st.integers(1, 2))
                return ("l", [name_target() for _ in range(n)]), n
            if k == "t2":
                # a nested target in last, first or middle position of its level
                n_out = draw(st.integers(2, 3))
                pos = draw(st.sampled_from([n_out - 1, n_out - 1, 0, 1]))
                ts = [name_target() for _ in range(n_out)]
                ts[pos] = ("t", [name_target(), name_target()])
                t2_shape[:] = [n_out, pos]
                return ("t", ts), -2
            if k == "star":
                pos = draw(st.integers(0, 2))
                ts = [name_target(), name_target()]
                ts.insert(pos, ("star", name_target()))
                return ("t", ts), -3
            if k == "attr":
                return ("attr", "o", draw(st.sampled_from(["x", "z"]))), 0
            idx = ("E", ekey(), ("int", draw(st.integers(0, 1)))) if fl.sub_side_effect and draw(st.booleans()) \
                else ("int", draw(st.integers(0, 1)))
            return ("sub", "dd", idx), 0

        def mark(bound, t):
            for n in target_names(t):
                bound.add(n)

        def assign_stmt(bound):
            nt = draw(st.integers(1, 6))
            t, arity = target(bound)
            if t[0] == "sub" and "dd" not in bound:
                bound.add("dd")
                pre = [("assign", [("n", "dd")], ("dict", [(("int", 0), ("int", 0))]))]
            else:
                pre = []
            if arity == 0:
                if fl.yield_in_rhs and gen and draw(st.integers(0, 5)) == 0 and t[0] == "n":
                    mark(bound, t)
                    return pre + [("yieldassign", t[1], int_expr(bound, 1))]
                e = int_expr(bound)
                targets = [t]
                if nt == 1 and t[0] == "n":
                    targets.append(name_target())
                for x in targets:
                    mark(bound, x)
                return pre + [("assign", targets, e)]
            if arity > 1 and t[0] == "t" and all(x[0] == "n" for x in t[1]) and draw(st.integers(0, 3)) == 0:
                # swap / rotate idiom: the right-hand side names the targets themselves
                names = [x[1] for x in t[1]]
                k = draw(st.integers(1, len(names) - 1))
                rot = names[k:] + names[:k]
                e = (draw(st.sampled_from(["tuple", "list"])), [("var", n) for n in rot])
                mark(bound, t)
                return pre + [("assign", [t], e)]
            if arity == -2:
                n_out, pos = t2_shape
                es = [int_expr(bound, 1) for _ in range(n_out)]
                es[pos] = ("tuple", [int_expr(bound, 1), int_expr(bound, 1)])
                e = ("tuple", es)
                if draw(st.integers(0, 2)) == 0:
                    # the inner sequence has the wrong length: the outer entries that come first are
                    # bound all the same, and the statement fails with the inner unpacking
                    inner = [int_expr(bound, 1) for _ in range(draw(st.sampled_from([1, 3])))]
                    es = list(es)
                    es[pos] = ("tuple", inner)
                    e = ("tuple", es)
                    mark(bound, t)
                    return pre + [("try", [("assign", [t], e)], [("(ValueError, TypeError)", None, [("pass",)])], [], [])]
            elif arity == -3:
                n = draw(st.integers(1, 4))
                e = unpack_source(n, bound)
            else:
                e = unpack_source(arity, bound)
            mark(bound, t)
            return pre + [("assign", [t], e)]

        def block(bound, depth, in_loop, in_fn_gen, n_max=3):
            n = draw(st.integers(1, n_max))
            out = []
            for _ in range(n):
                if st_budget[0] <= 0:
                    break
                out += stmt(bound, depth, in_loop, in_fn_gen)
            return out or [("pass",)]

        def stmt(bound, depth, in_loop, in_fn_gen):
            st_budget[0] -= 1
            simple = ["assign", "assign", "assign", "aug", "expr", "ann", "return", "raise", "import", "assert",
                      "def", "class", "del", "pass"]
            compound = ["for", "for", "if", "if", "try", "try", "with", "while"]
            opts = list(simple)
            if depth < fl.max_depth:
                opts += compound
            if in_loop:
                opts += ["break", "continue"]
            if in_fn_gen:
                opts += ["yield", "yield", "yield"]
                if fl.yield_from:
                    opts.append("yieldfrom")
            k = draw(st.sampled_from(opts))
            if k == "assign":
                return assign_stmt(bound)
            if k == "aug":
                kind = draw(st.sampled_from(["n", "n", "attr", "sub"]))
                op = draw(st.sampled_from(["+", "-", "*"]))
                if kind == "attr" and has_o:
                    return [("aug", ("attr", "o", "x"), op, int_expr(bound, 1))]
                if kind == "sub":
                    pre = []
                    if "dd" not in bound:
                        bound.add("dd")
                        pre = [("assign", [("n", "dd")], ("dict", [(("int", 0), ("int", 0))]))]
                    return pre + [("aug", ("sub", "dd", ("int", 0)), op, int_expr(bound, 1))]
                pool = [v for v in bound if v in LOCALS and v not in excluded]
                if not pool:
                    t = name_target()
                    bound.add(t[1])
                    return [("assign", [t], int_expr(bound))]
                return [("aug", ("n", draw(st.sampled_from(sorted(pool)))), op, int_expr(bound, 1))]
            if k == "expr":
                if fl.walrus_in_comp and draw(st.integers(0, 3)) == 0:
                    t = name_target()
                    bound.add(t[1])
                    return [("expr", ("comp", ("walrus", t[1], ("var", "cv_")), ("var", "xs")))]
                return [("expr", ("E", ekey(), int_expr(bound, 1)))]
            if k == "ann":
                if draw(st.integers(0, 5)) == 0:
                    return [("anntarget", "o.x" if has_o and draw(st.booleans()) else "xs[0]")]
                t = name_target()
                ann = "int"
                bound.add(t[1])
                return [("ann", t[1], ann, int_expr(bound, 1))]
            if k == "return":
                if draw(st.integers(0, 2)) == 0:
                    return [("return", None if draw(st.integers(0, 3)) == 0 else int_expr(bound, 1))]
                return [("expr", ("E", ekey(), int_expr(bound, 1)))]
            if k == "raise":
                if draw(st.integers(0, 2)) == 0:
                    return [("raise", int_expr(bound, 1))]
                return [("expr", ("E", ekey(), ("int", 0)))]
            if k == "import":
                choice = draw(st.sampled_from([
                    ("import os", ["os"]), ("import json as jj", ["jj"]), ("from os import sep", ["sep"]),
                    ("from os import sep as ss", ["ss"]), ("import os.path", ["os"]),
                    ("import os.path as pp", ["pp"]), ("from os import sep, linesep as ll", ["sep", "ll"]),
                ]))
                if not fl.import_dotted and "os.path" in choice[0]:
                    choice = ("import os", ["os"])
                for n in choice[1]:
                    bound.add(n)
                return [("import", choice[0], choice[1])]
            if k == "assert":
                return [("assert", ("cmp", ">=", int_expr(bound, 1), ("int", -50)))]
            if k == "def":
                counters["g"] += 1
                g = f"g_{counters['g']}"
                pool = [v for v in bound if v in LOCALS]
                cap = draw(st.sampled_from(sorted(pool))) if pool and draw(st.booleans()) else None
                if closure and draw(st.integers(0, 3)) == 0:
                    # the outer function's variable only passes *through* f to the inner def
                    cap = "cl"
                bound.add(g)
                return [("def", g, cap, draw(st.integers(0, 2)) == 0)]
            if k == "class":
                if not fl.nested_class:
                    return [("pass",)]
                counters["K"] += 1
                return [("class", f"K_{counters['K']}", int_expr(bound, 2), draw(st.integers(0, 2)) == 0)]
            if k == "del":
                pool = [v for v in bound if v in LOCALS and v not in excluded]
                if not pool or draw(st.integers(0, 2)):
                    return [("pass",)]
                v = draw(st.sampled_from(sorted(pool)))
                bound.discard(v)
                return [("del", v)]
            if k == "pass":
                return [("pass",)]
            if k == "break":
                return [("break",)]
            if k == "continue":
                return [("continue",)]
            if k == "yield":
                return [("yield", int_expr(bound, 1))]
            if k == "yieldfrom":
                return [("yieldfrom", draw(st.sampled_from([("list", [("int", 1), ("int", 2)]), ("var", "xs"),
                                                           ("range", ("int", 2))])))]
            if k == "for":
                del taken[:]
                tk = draw(st.sampled_from(["n", "n", "n", "t", "t", "t2", "star", "attr"]))
                if tk == "star" and not fl.starred:
                    tk = "t"
                if tk == "attr" and not (has_o and fl.for_attr_target):
                    tk = "n"
                if tk == "attr":
                    body = block(bound, depth + 1, True, in_fn_gen)
                    return [("for", ("attr", "o", "x"), iter_expr(bound), body, [])]
                if tk == "n":
                    t = name_target()
                    it = iter_expr(bound)
                elif tk == "t":
                    t = ("t", [name_target(), name_target()])
                    it = draw(st.sampled_from([
                        ("list", [("tuple", [("int", 1), ("int", 2)]), ("tuple", [("int", 3), ("int", 4)])]),
                        ("call", "enumerate", ("var", "xs")),
                        ("call", "zip2", ("var", "xs")),
                        ("list", [("list", [("int", 5), ("int", 6)])]),
                        ("list", [("genexp", ("list", [("int", 7), ("int", 8)]))]),
                    ]))
                elif tk == "t2":
                    t = ("t", [name_target(), ("t", [name_target(), name_target()])])
                    it = ("list", [("tuple", [("int", 1), ("tuple", [("int", 2), ("int", 3)])])])
                else:
                    t = ("t", [name_target(), ("star", name_target())])
                    it = ("list", [("tuple", [("int", 1), ("int", 2), ("int", 3)]), ("tuple", [("int", 4)])])
                mark(bound, t)
                body = block(bound, depth + 1, True, in_fn_gen)
                orelse = block(bound, depth + 1, in_loop, in_fn_gen, 2) if draw(st.integers(0, 3)) == 0 else []
                return [("for", t, it, body, orelse)]
            if k == "while":
                counters["wk"] += 1
                wk = f"wk{counters['wk']}"
                bound.add(wk)
                body = [("aug", ("n", wk), "-", ("int", 1))] + block(bound, depth + 1, True, in_fn_gen)
                orelse = block(bound, depth + 1, in_loop, in_fn_gen, 1) if draw(st.integers(0, 3)) == 0 else []
                return [("assign", [("n", wk)], ("int", draw(st.integers(0, 3)))),
                        ("while", ("cmp", ">", ("var", wk), ("int", 0)), body, orelse)]
            if k == "if":
                c = int_expr(bound, 1)
                b1 = set(bound)
                body = block(b1, depth + 1, in_loop, in_fn_gen)
                orelse = []
                b2 = set(bound)
                if draw(st.booleans()):
                    orelse = block(b2, depth + 1, in_loop, in_fn_gen)
                bound |= (b1 & b2) if orelse else set()
                if draw(st.integers(0, 3)) == 0:
                    bound |= b1
                return [("if", c, body, orelse)]
            if k == "try":
                b1 = set(bound)
                body = block(b1, depth + 1, in_loop, in_fn_gen)
                handlers = []
                nh = draw(st.integers(0, 2))
                for i in range(nh):
                    exc = draw(st.sampled_from(["Boom", "ZeroDivisionError", "Exception", None, "(ValueError, TypeError)",
                                                "BaseException"]))
                    asname = None
                    if exc and draw(st.booleans()):
                        asname = draw(st.sampled_from(["ex", "ex2"]))
                    hb = set(bound)
                    if asname:
                        hb.add(asname)
                    hbody = block(hb, depth + 1, in_loop, in_fn_gen, 2)
                    if fl.except_only_names:
                        bound |= {v for v in hb if v in LOCALS} if draw(st.integers(0, 4)) == 0 else set()
                    handlers.append((exc, asname, hbody))
                    if exc is None:
                        break
                orelse = block(set(b1), depth + 1, in_loop, in_fn_gen, 2) if handlers and draw(st.integers(0, 3)) == 0 else []
                final = []
                if not handlers or draw(st.integers(0, 2)) == 0:
                    final = block(set(bound), depth + 1, False if not fl.finally_return else in_loop, in_fn_gen, 2)
                    if not fl.finally_return:
                        final = [s for s in final if s[0] not in ("return", "break", "continue")] or [("pass",)]
                return [("try", body, handlers, orelse, final)]
            if k == "with":
                counters["cm"] += 1
                key = f"w{counters['cm']}"
                t = None
                e = int_expr(bound, 1)
                if fl.with_as and draw(st.booleans()):
                    del taken[:]
                    if draw(st.integers(0, 3)) == 0:
                        t = ("t", [name_target(), name_target()])
                        e = ("tuple", [int_expr(bound, 1), int_expr(bound, 1)])
                    else:
                        t = name_target()
                    mark(bound, t)
                second = None
                if t is not None and draw(st.integers(0, 2)) == 0:
                    counters["cm"] += 1
                    e2 = int_expr(bound, 1)
                    t2 = name_target()
                    mark(bound, t2)
                    second = (f"w{counters['cm']}", e2, t2)
                body = block(bound, depth + 1, in_loop, in_fn_gen)
                return [("with", key, e, t, body, second)]
            return [("pass",)]

        bound = set(pnames)
        body = []
        n_top = draw(st.integers(1, 6))
        for _ in range(n_top):
            if st_budget[0] <= 0:
                break
            body += stmt(bound, 1, False, gen)
        if gen and not any(s[0] in ("yield", "yieldassign", "yieldfrom") for s in walk_stmts(body)):
            body.append(("yield", int_expr(bound, 1)))
        # final return (or fall off the end)
        tail = draw(st.integers(0, 4))
        if tail == 4:
            risky = draw(st.sampled_from([("idx", "xs", ("int", 2)), ("bin", "//", ("int", 6), ("var", "x")),
                                          ("bin", "%", ("int", 7), ("var", "x")), ("len", ("var", "xs"))]))
            hb = [("expr", ("E", ekey(), ("int", 1)))] if draw(st.booleans()) else [("pass",)]
            fin = [("expr", ("E", ekey(), ("int", 2)))] if draw(st.integers(0, 3)) == 0 else []
            shape = draw(st.integers(0, 2))
            if shape == 0:
                body.append(("try", [("return", risky)], [(draw(st.sampled_from(["Exception", None, "(IndexError, ZeroDivisionError, TypeError, KeyError)"])), None, hb)], [], fin))
            elif shape == 1:
                body.append(("try", [("assign", [("n", "a")], risky)], [("Exception", "ex", hb)], [("return", ("var", "a"))], fin))
            else:
                body.append(("if", ("var", "x"), [("try", [("return", risky)], [("Exception", None, hb)], [], [])],
                             [("return", ("int", 0))]))
        elif tail:
            pool = sorted(v for v in bound if v in LOCALS)
            items = [("var", v) for v in pool[:3]] or [("int", 0)]
            body.append(("return", ("tuple", items) if tail == 1 else items[0]))
        decls = []
        if fl.global_decl and draw(st.integers(0, 5)) == 0:
            gname = draw(st.sampled_from(["G1", "G2"]))
            decls.append(("global", gname))
            if draw(st.booleans()):
                pos = draw(st.integers(0, len(body)))
                body.insert(pos, ("assign", [("n", gname)], ("bin", "+", ("var", gname), ("int", 1))))
        if fl.nonlocal_decl and closure and draw(st.integers(0, 2)) == 0:
            decls.append(("nonlocal", "cl"))
            pos = draw(st.integers(0, len(body)))
            body.insert(pos, draw(st.sampled_from([
                ("assign", [("n", "cl")], ("bin", "+", ("var", "cl"), ("int", 1))),
                ("aug", ("n", "cl"), "+", ("int", 2)),
            ])))
        if fl.global_decl and decls:
            # sometimes the declaration sits inside a handler / finally / else / if block
            decls = [("declin", draw(st.sampled_from(["except", "finally", "if", "else", "try"])), d)
                     if draw(st.integers(0, 2)) == 0 else d for d in decls]
            decls.sort(key=lambda d: d[0] == "declin")  # plain declarations first
        body = decls + body
        fn = {"name": "f", "params": params, "body": body, "gen": gen, "closure": closure_vars}
        # names read (or deleted) but bound nowhere in f would be *globals*; make them genuine
        # locals with an unreachable binding so that reading them is an UnboundLocalError
        bn = bound_names(fn)
        ghosts = set()
        for e in walk_exprs(body):
            if e[0] == "var" and e[1] in LOCALS and e[1] not in bn:
                ghosts.add(e[1])
            if e[0] == "call" and e[1].startswith("g_"):
                pass
        for s_ in walk_stmts(body):
            if s_[0] == "del" and s_[1] not in bn:
                ghosts.add(s_[1])
            if s_[0] == "def" and s_[2] and s_[2] not in bn and s_[2] != "cl":
                ghosts.add(s_[2])
        if ghosts:
            fn["body"] = [("if", ("int", 0), [("assign", [("n", g)], ("int", 0)) for g in sorted(ghosts)], [])] + body
        dd = draw(st.integers(0, 39))
        if dd == 0 and not gen and not decls:
            fn["body"] = [("doc",)]  # a stub: the whole body is a docstring
        elif dd < 5:
            fn["body"] = [("doc",)] + fn["body"]
        return fn

    return fn_strategy()


# ---------------------------------------------------------------------------------------
# inputs


_INPUT_STRATS = None


def _input_strats():
    global _INPUT_STRATS
    if _INPUT_STRATS is None:
        from hypothesis import strategies as st

        small = st.integers(-2, 5)
        seqs = st.lists(small, min_size=0, max_size=4)
        xs = st.one_of(
            seqs.map(lambda v: ("list", v)),
            seqs.map(lambda v: ("tuple", v)),
            seqs.map(lambda v: ("gen", v)),
            seqs.map(lambda v: ("iter", v)),
            st.lists(small, max_size=3, unique=True).map(lambda v: ("dict", v)),
            st.sampled_from(["", "p", "pq", "pqr"]).map(lambda v: ("str", v)),
            st.lists(st.tuples(small, small), max_size=3).map(lambda v: ("pairs", v)),
        )
        _INPUT_STRATS = {
            "small": small,
            "xs": xs,
            "varargs": st.lists(small, max_size=2),
            "kwargs": st.lists(st.sampled_from(["m", "n"]), unique=True, max_size=2),
            "bool": st.booleans(),
        }
    return _INPUT_STRATS


def st_integers_0_3():
    from hypothesis import strategies as st

    return st.integers(0, 3)


def draw_inputs(draw, fn):
    """Draw the argument recipe of one call: dict name -> recipe."""
    S = _input_strats()
    out = {}
    for p in fn["params"]:
        n, kind = p[0], p[1]
        if n == "xs":
            out[n] = draw(S["xs"])
        elif n == "o":
            out[n] = ("touchy" if draw(st_integers_0_3()) == 0 else "obj", draw(S["small"]))
        elif kind == "var":
            out[n] = ("varargs", draw(S["varargs"]))
        elif kind == "kw":
            out[n] = ("kwargs", draw(S["kwargs"]))
        elif p[2] is not None and draw(S["bool"]):
            continue  # use the default
        else:
            out[n] = ("int", draw(S["small"]))
    return out


def inputs_for(fn):
    from hypothesis import strategies as st

    return st.composite(lambda draw: draw_inputs(draw, fn))()


def build_args(fn, recipe, glb):
    """(args, kwargs, mutable arguments to inspect afterwards) - fresh objects every time."""
    args, kwargs, watch = [], {}, {}

    def mk(r):
        k, v = r
        if k == "int":
            return v
        if k == "list":
            return list(v)
        if k == "tuple":
            return tuple(v)
        if k == "gen":
            return (i for i in list(v))
        if k == "iter":
            return iter(list(v))
        if k == "dict":
            return {i: i * 10 for i in v}
        if k == "str":
            return v
        if k == "pairs":
            return [tuple(p) for p in v]
        if k == "obj":
            return glb["Obj"](x=v, z=0)
        if k == "touchy":
            return glb["Touchy"](x=v, z=0)
        raise ValueError(r)

    skipped = False
    for p in fn["params"]:
        n, kind = p[0], p[1]
        if n not in recipe:
            skipped = True
            continue
        r = recipe[n]
        if kind == "var":
            args.extend(r[1])
            continue
        if kind == "kw":
            for key in r[1]:
                kwargs[key] = 1
            continue
        val = mk(r)
        if r[0] in ("list", "dict", "obj", "touchy", "pairs"):
            watch[n] = val
        if kind in ("posonly", "pos") and not skipped:
            args.append(val)
        else:
            kwargs[n] = val
    return args, kwargs, watch
