#!/bin/bash
# run the thorough tier of every check once (used for background soak runs)
cd "$(dirname "$0")/.."
for c in ${CHECKS:-C15 C18 C12 C03 C07 C05 C17 C09 C01 C02 C06 C04 C16 C10 C11 C13 C14 C08}; do
  s=$(date +%s)
  /venv/bin/python run.py $c --tier thorough --no-evidence 2>&1 | grep -E "^(# C|VIOLATION|KNOWN|HARNESS)" | cut -c1-1200
  echo "== $c took $(( $(date +%s) - s )) s, VERIF_SEED=${VERIF_SEED:-1}"
done
