#!/usr/bin/env python3
"""Sensitivity harness: apply hand-made mutants to a scratch copy of /repo (under /tmp,
removed afterwards), run the repo's own test-suite and the named check against the copy.

usage: tools/mutants.py C03 [m1 m2 ...] [--seed N] [--no-suite]
Mutants live in tools/mutants/<Cxx>.py as MUTANTS = {name: [(file, old, new), ...]}.
"""
import importlib.util, os, shutil, subprocess, sys, tempfile, time

HERE = os.path.dirname(os.path.dirname(os.path.abspath(__file__)))


def load(prop):
    p = os.path.join(HERE, "tools", "mutants", prop + ".py")
    spec = importlib.util.spec_from_file_location("m_" + prop, p)
    m = importlib.util.module_from_spec(spec)
    spec.loader.exec_module(m)
    return m.MUTANTS


def main():
    args = [a for a in sys.argv[1:] if not a.startswith("--")]
    prop = args[0]
    names = args[1:]
    seed = "1"
    for a in sys.argv[1:]:
        if a.startswith("--seed="):
            seed = a.split("=")[1]
    suite = "--no-suite" not in sys.argv
    muts = load(prop)
    for name, edits in muts.items():
        if names and name not in names:
            continue
        d = tempfile.mkdtemp(prefix=f"mut_{prop}_{name}_", dir="/tmp")
        try:
            subprocess.check_call(["git", "-C", "/repo", "worktree", "add", "-q", "--detach", d + "/r"],
                                  stdout=subprocess.DEVNULL, stderr=subprocess.DEVNULL)
            repo = d + "/r"
            # bring uncommitted working-tree changes along
            diff = subprocess.run(["git", "-C", "/repo", "diff"], capture_output=True, text=True).stdout
            if diff.strip():
                subprocess.run(["git", "-C", repo, "apply"], input=diff, text=True, check=True)
            for (fn, old, new) in edits:
                p = os.path.join(repo, fn)
                s = open(p).read()
                if s.count(old) != 1:
                    print(f"{prop} {name}: PATCH DOES NOT APPLY ({s.count(old)} matches) in {fn}")
                    raise SystemExit(2)
                open(p, "w").write(s.replace(old, new))
            suite_res = "skipped"
            if suite:
                r = subprocess.run(["/venv/bin/python", "-m", "pytest", "-q", "-x", "-p", "no:cacheprovider", "tests"],
                                   cwd=repo, capture_output=True, text=True,
                                   env=dict(os.environ, PYTHONPATH=repo, PYTHONDONTWRITEBYTECODE="1"))
                tail = (r.stdout.strip().splitlines() or ["?"])[-1]
                suite_res = "suite-passes" if r.returncode == 0 else "SUITE-CATCHES(" + tail[:60] + ")"
            t0 = time.time()
            r = subprocess.run(["/venv/bin/python", os.path.join(HERE, "run.py"), prop, "--tier", "quick", "--no-evidence"],
                               capture_output=True, text=True,
                               env=dict(os.environ, VERIF_REPO=repo, VERIF_SEED=seed))
            lines = [l for l in r.stdout.splitlines() if l.startswith("# " + prop + " violated")]
            verdict = {0: "MISSED", 1: "caught", 2: "HARNESS-ERROR"}.get(r.returncode, str(r.returncode))
            print(f"{prop} {name}: {verdict} [{suite_res}] {time.time()-t0:.0f}s  {(lines[0][:160] if lines else '')}")
            if r.returncode == 2:
                print(r.stderr[-1500:])
        finally:
            subprocess.run(["git", "-C", "/repo", "worktree", "remove", "--force", d + "/r"],
                           stdout=subprocess.DEVNULL, stderr=subprocess.DEVNULL)
            shutil.rmtree(d, ignore_errors=True)
            subprocess.run(["git", "-C", "/repo", "worktree", "prune"])


if __name__ == "__main__":
    main()
