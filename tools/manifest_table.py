NOT_YET = {}
reg("C15", "property-based testing: bounded-exhaustive + Hypothesis-generated selector IRs, round-trip of all documented spellings to one interned object, denotation computed from the IR",
    "Every generated selector IR (exhaustive to depth 2 over a reduced alphabet, random to depth 3) is rendered in all documented spellings and whitespace variants; all must parse to the identical object whose fields equal the IR's denotation. Exploration: held on N generated IRs, not a proof.",
    "Trusts the IR->text renderer and denotation in vlib/selgen.py (about 300 lines, independent of ptera); only equivalences stated by the docs/tests are asserted.",
    "DESIGN.md section 5 C15")
reg("C18", "property-based testing / fuzzing: exhaustive token strings (32-token alphabet, length<=4/5) + Hypothesis grammar-based mutation of valid selectors + raw text, allowed-exception oracle with failure bucketing; injected semantic faults must be refused",
    "Every generated string is pushed through parse, select and probing+activation; the oracle is the list of allowed outcomes of the property (SyntaxError with offset, SelectorError, the documented TypeError; deliberate refusal at activation). Exhaustive below the stated length, sampled beyond. Exploration, not proof.",
    "Trusts the deliberate-vs-accidental classifier (innermost ptera frame fails on a raise statement) and three tolerated classes listed in the evidence assumptions.",
    "DESIGN.md section 5 C18")
reg("C03", "property-based testing: Hypothesis-generated call plans x chain/sibling selectors, reference model of stack embeddings (model_paths.immediate_events)",
    "Generated call trees (recursion, indirect calls, caught/uncaught raises, re-entry) are run under generated chain/sibling selectors through probing() and through BaseOverlay+Immediate; the event stream must equal the one a pure-Python model computes from the plan by enumerating embeddings of the chain into the live stack. Exploration over bounded plans/selectors.",
    "Trusts vlib/model_paths.py (a transcription of the property statement, no ptera imports) and the fixed function family in vlib/family.py.",
    "DESIGN.md section 5 C03, section 4.2")
reg("C07", "property-based testing: Hypothesis-generated call plans x focus-free (and forced-total) selector trees, reference model of total records (model_paths.total_records)",
    "Generated call trees are run under focus-free selectors (probing raw, BaseOverlay+Total, two selectors in one probe) and focused selectors forced to total; records must equal the model's: one per ending outermost activation, all values in order once per embedding, none when a capture is empty.",
    "Trusts vlib/model_paths.py; multiplicity per embedding is the documented-by-behaviour reading (DESIGN section 6.2).",
    "DESIGN.md section 5 C07, section 4.2")
reg("C12", "property-based testing: exhaustive integer box for the stock predicates against their arithmetic definitions + Hypothesis-generated constrained selectors end-to-end against a reference interpreter (filter and conditional override)",
    "Part (a) enumerates every argument combination in the stated box and compares with the arithmetic definitions of the property; part (b) runs generated inputs under selectors with 1-3 value conditions at both stack levels and compares the delivered stream (and the effect of an override attached to the same selector) with a reference interpreter that filters/substitutes by the reference predicates.",
    "Trusts the reference interpreter of lo/li in checks/c12.py and vlib/model_paths.py; throttle is only checked for plumbing (once per candidate event, in order).",
    "DESIGN.md section 5 C12")
reg("C05", "property-based testing (stateful): Hypothesis rule-based machines over activation/deactivation/call histories, model of active probes + model_paths, invariants after every step",
    "Histories over nested with-blocks (left normally / by exception / with a reducer raising on completion), global probes deactivated in any order, refused activations and calls are applied to ptera and to a model; after every step each probe's stream must equal the model's (exactly-once while active, frozen afterwards), functions no active probe uses must be on their original code with zero counters, the installed handlers must be exactly those of the active probes, and at quiescence a fresh probe behaves like the first ever. A second machine does the same for plain overlays on tooled copies.",
    "Reads ptera internals at the observation points the property names (fn.__code__, __ptera_stack__ counters, HandlerCollection.current, global_probes, probe._ol.handlers).",
    "DESIGN.md section 5 C05")
reg("C17", "property-based testing (stateful): Hypothesis rule-based machine over pipeline/lifecycle histories of one probe, stream model with exactly-once completion",
    "Histories of {attach stage, activate, call, deactivate normally/by exception/explicitly, re-activation attempt, background probe on/off} are applied to one root probe and to a stream model; after every step every non-reducing sink must equal the mapped list of events since its attachment, reducing sinks must be empty until deactivation and hold exactly the reduction of their events afterwards, a refused re-activation must change nothing, and nothing may stay installed once inactive.",
    "Trusts giving's operator semantics for map/filter/count/sum/min/max/last/take_last as re-stated in ref_stage; empty strict reducers are excluded by the model (giving raises by contract).",
    "DESIGN.md section 5 C17")
reg("C09", "property-based testing (model-based histories): Hypothesis-generated operation sequences over overlays/generators/driver calls, leak-free context model with per-node event attribution",
    "Generated histories of {enter/leave overlay, create generator, next, close, drop, driver call}, run at top level and inside an instrumented driver function, are applied to ptera (BaseOverlay+Immediate on tooled copies, own sinks) and to a model in which the driver's context is exactly the open overlays; events caused by the driver's own calls must match for every overlay (open or ended), generator-body events must match for overlays spanning the generator, and at top level the installed handler pairs must be exactly the open overlays' after every step.",
    "Generator-body events for overlays that do not span the generator's life are don't-care; yield-from and throw() are not in the property's operation set and are not generated.",
    "DESIGN.md section 5 C09")
