NOT_YET = {}
reg("C15", "property-based testing: bounded-exhaustive + Hypothesis-generated selector IRs, round-trip of all documented spellings to one interned object, denotation computed from the IR",
    "Every generated selector IR (exhaustive to depth 2 over a reduced alphabet, random to depth 3) is rendered in all documented spellings and whitespace variants; all must parse to the identical object whose fields equal the IR's denotation. Exploration: held on N generated IRs, not a proof.",
    "Trusts the IR->text renderer and denotation in vlib/selgen.py (about 300 lines, independent of ptera); only equivalences stated by the docs/tests are asserted.",
    "DESIGN.md section 5 C15")
