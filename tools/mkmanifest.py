#!/usr/bin/env python3
"""Regenerate MANIFEST.json from the table below (keeps the manifest valid at all times)."""
import json, os, sys
HERE = os.path.dirname(os.path.dirname(os.path.abspath(__file__)))

# id -> (technique, level text, level note, design ref)
CHECKS = {}
def reg(pid, technique, text, note, ref):
    CHECKS[pid] = (technique, text, note, ref)

exec(open(os.path.join(HERE, "tools", "manifest_table.py")).read())

props = [json.loads(l)["id"] for l in open(os.path.join(HERE, "properties.jsonl"))]
checks = []
na = []
for pid in props:
    if pid in CHECKS and os.path.exists(os.path.join(HERE, "checks", pid.lower() + ".py")):
        technique, text, note, ref = CHECKS[pid]
        checks.append({
            "property_id": pid,
            "quick_cmd": f"/venv/bin/python run.py {pid} --tier quick",
            "thorough_cmd": f"/venv/bin/python run.py {pid} --tier thorough",
            "evidence_file": f"/verif/evidence/{pid}.json",
            "replay_cmd_template": f"/venv/bin/python run.py {pid} --replay {{path}}",
            "engine": "vlib",
            "level_claimed": {"category": "exploration", "text": text, "design_ref": ref},
            "level_note": note,
            "technique": technique,
        })
    else:
        na.append({"property_id": pid, "reason": NOT_YET.get(pid, "check not built yet in this session (designed in DESIGN.md section 5; property-based testing applies)")})

m = {
    "version": 1,
    "setup_cmd": "/venv/bin/python tools/setup.py",
    "hooks": {
        "guard": "PTERA_VERIF",
        "enable": "no hooks are compiled into /repo; checks import /repo's working tree directly (PYTHONPATH=/repo) and set PTERA_VERIF=1, which nothing reads",
        "baseline_off_cmd": "cd /repo && env -u PTERA_VERIF /venv/bin/python -m pytest -ra -q -p no:cacheprovider --timeout=900 --continue-on-collection-errors",
        "source_commits": [],
        "add_only": True,
    },
    "engines": [
        {"name": "vlib", "path": "/verif/vlib", "serves_properties": [c["property_id"] for c in checks],
         "kind_free_text": "Hypothesis 6.168 (plain + stateful) and bounded-exhaustive enumeration over generated IRs, sharded over 16 fresh processes; explicit oracles (reference models / differential twins / metamorphic laws); replay files re-run without Hypothesis"},
    ],
    "checks": checks,
    "notes": "All checks: `run.py <id> --tier quick|thorough`; VERIF_SEED selects the Hypothesis seed (seed*1000+shard). Exit 0 held, 1 VIOLATION, 2 harness error. Known findings / fixes: KNOWN_FINDINGS.txt.",
    "not_applicable": na,
}
json.dump(m, open(os.path.join(HERE, "MANIFEST.json"), "w"), indent=1)
print("claimed:", [c["property_id"] for c in checks], "not yet:", [x["property_id"] for x in na])
