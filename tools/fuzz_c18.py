#!/venv/bin/python
"""Coverage-guided (atheris / libFuzzer) campaign for C18, same oracle as checks/c18.py.

usage: fuzz_c18.py <outfile> [libFuzzer args...]
Byte 0 selects the decoding: even -> the rest is raw selector text, odd -> token indices into
c18.ALPHABET.  On a violation the offending string is written to <outfile> (JSON) and the
exception is re-raised so that libFuzzer stops and keeps the input.
"""
import json
import os
import sys

HERE = os.path.dirname(os.path.dirname(os.path.abspath(__file__)))
REPO = os.environ.get("VERIF_REPO", "/repo")
sys.path[:0] = [os.path.join(HERE, ".deps"), REPO, HERE]
OUT = sys.argv[1]
sys.argv = [sys.argv[0]] + sys.argv[2:]

import atheris  # noqa

with atheris.instrument_imports(include=["ptera.selector", "ptera.opparse"]):
    import ptera.opparse  # noqa
    import ptera.selector  # noqa

from checks import c18  # noqa
from vlib.core import PropertyViolation  # noqa

COUNT = [0]


def decode(data):
    if not data:
        return ""
    if data[0] % 2 == 0:
        return data[1:41].decode("latin-1").translate({i: "?" for i in range(127, 256)})
    return "".join(c18.ALPHABET[b % len(c18.ALPHABET)] for b in data[1:15])


def TestOneInput(data):
    s = decode(data)
    COUNT[0] += 1
    try:
        c18.check_string(s, None, only_plain=True)
    except PropertyViolation as v:
        json.dump({"string": s, "clause": v.clause, "detail": v.detail, "bucket": v.extra.get("bucket")},
                  open(OUT, "w"))
        raise


atheris.Setup(sys.argv, TestOneInput)
atheris.Fuzz()
