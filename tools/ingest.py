#!/usr/bin/env python3
"""Ingest a sub-agent's seeded/ directory: tools/ingest.py <worktree> <Cxx> <offset>
Renames patchN/demoN/metaN to N+offset, confirms them in the worktree (suite passes, demo fails with /
passes without the patch), stores them under /verif/seeded/, removes the worktree and runs the
property's own check against each on a fresh worktree of /repo HEAD."""
import os, subprocess, sys
HERE = os.path.dirname(os.path.dirname(os.path.abspath(__file__)))
wt, prop, off = sys.argv[1], sys.argv[2], int(sys.argv[3])
d = os.path.join(wt, "seeded")
ids = []
for n in (1, 2):
    if not os.path.exists(f"{d}/patch{n}.diff"):
        continue
    for kind, ext in (("patch", "diff"), ("demo", "py"), ("meta", "json")):
        src = f"{d}/{kind}{n}.{ext}"
        if os.path.exists(src):
            os.rename(src, f"{d}/{kind}{n + off}.{ext}")
    ids.append(f"{prop}-{n + off}")
r = subprocess.run([sys.executable, os.path.join(HERE, "tools", "seeded.py"), wt, prop, "--checks=C15"], capture_output=True, text=True)
print("\n".join(l for l in r.stdout.splitlines() if not l.startswith("    check")))
subprocess.run(["git", "-C", "/repo", "worktree", "remove", "--force", wt])
subprocess.run(["git", "-C", "/repo", "worktree", "prune"])
ids = [i for i in ids if os.path.exists(os.path.join(HERE, "seeded", i, "patch.diff"))]
if ids:
    subprocess.run([sys.executable, os.path.join(HERE, "tools", "reseed.py"), *ids])
