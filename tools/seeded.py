#!/usr/bin/env python3
"""Confirm a sub-agent's seeded change and run the owning check against it.

usage: tools/seeded.py <worktree> <Cxx> [--checks C03,C05] [--seed N] [--tier quick]
For each seeded/patch<N>.diff in the worktree: (1) apply it there, run the repo suite (must
pass) and the demo (must exit non-zero); (2) run the check(s) with VERIF_REPO=<worktree>;
(3) revert, run the demo (must exit 0); (4) copy to /verif/seeded/<Cxx>-<N>/ with meta.json.
"""
import glob, json, os, shutil, subprocess, sys, time

HERE = os.path.dirname(os.path.dirname(os.path.abspath(__file__)))


def sh(cmd, **kw):
    return subprocess.run(cmd, capture_output=True, text=True, **kw)


def main():
    wt, prop = sys.argv[1], sys.argv[2]
    checks = [prop]
    seed = "1"
    tier = "quick"
    only = None
    for a in sys.argv[3:]:
        if a.startswith("--checks="):
            checks = a.split("=")[1].split(",")
        if a.startswith("--seed="):
            seed = a.split("=")[1]
        if a.startswith("--tier="):
            tier = a.split("=")[1]
        if a.startswith("--only="):
            only = a.split("=")[1]
    env = dict(os.environ, PYTHONPATH=wt, PYTHONDONTWRITEBYTECODE="1")
    for patch in sorted(glob.glob(os.path.join(wt, "seeded", "patch*.diff"))):
        n = os.path.basename(patch)[5:-5]
        if only and n != only:
            continue
        demo = os.path.join(wt, "seeded", f"demo{n}.py")
        meta_p = os.path.join(wt, "seeded", f"meta{n}.json")
        sh(["git", "-C", wt, "checkout", "--", "ptera"])
        r0 = sh(["/venv/bin/python", demo], cwd=wt, env=env)
        ap = sh(["git", "-C", wt, "apply", patch])
        if ap.returncode:
            print(f"{prop}-{n}: patch does not apply: {ap.stderr[:300]}")
            continue
        try:
            suite = sh(["/venv/bin/python", "-m", "pytest", "-q", "-p", "no:cacheprovider", "tests"], cwd=wt, env=env)
            suite_tail = (suite.stdout.strip().splitlines() or ["?"])[-1]
            r1 = sh(["/venv/bin/python", demo], cwd=wt, env=env)
            results = {}
            for c in checks:
                t0 = time.time()
                r = sh(["/venv/bin/python", os.path.join(HERE, "run.py"), c, "--tier", tier, "--no-evidence"],
                       env=dict(os.environ, VERIF_REPO=wt, VERIF_SEED=seed))
                lines = [l for l in r.stdout.splitlines() if "violated" in l]
                results[c] = {"exit": r.returncode, "secs": round(time.time() - t0), "first": (lines[0][:300] if lines else "")}
                if r.returncode == 2:
                    results[c]["stderr"] = r.stderr[-800:]
        finally:
            sh(["git", "-C", wt, "checkout", "--", "ptera"])
        ok = r0.returncode == 0 and r1.returncode != 0 and suite.returncode == 0
        print(f"{prop}-{n}: demo clean={r0.returncode} patched={r1.returncode} suite='{suite_tail[:40]}' confirmed={ok}")
        for c, res in results.items():
            print(f"    check {c}: {'CAUGHT' if res['exit']==1 else 'MISSED' if res['exit']==0 else 'HARNESS-ERROR'} ({res['secs']}s) {res['first'][:200]}")
            if res.get("stderr"):
                print(res["stderr"])
        if ok:
            dst = os.path.join(HERE, "seeded", f"{prop}-{n}")
            os.makedirs(dst, exist_ok=True)
            shutil.copy(patch, os.path.join(dst, "patch.diff"))
            shutil.copy(demo, os.path.join(dst, "demo.py"))
            meta = json.load(open(meta_p)) if os.path.exists(meta_p) else {}
            meta.update({
                "property": prop,
                "confirmed_by_me": {
                    "suite_with_patch": suite_tail,
                    "demo_without_patch_exit": r0.returncode,
                    "demo_with_patch_exit": r1.returncode,
                    "commands": [
                        f"git -C <worktree> apply patch.diff; PYTHONPATH=<worktree> /venv/bin/python -m pytest -q tests; PYTHONPATH=<worktree> /venv/bin/python demo.py",
                        f"VERIF_REPO=<worktree> VERIF_SEED={seed} /venv/bin/python run.py <check> --tier {tier}",
                    ],
                },
                "checks_run": results,
            })
            json.dump(meta, open(os.path.join(dst, "meta.json"), "w"), indent=1)


if __name__ == "__main__":
    main()
