#!/venv/bin/python
"""Offline, idempotent setup: make sure hypothesis is importable in /venv."""
import subprocess, sys
try:
    import hypothesis  # noqa
    print("hypothesis", hypothesis.__version__, "already present")
except ImportError:
    subprocess.check_call([sys.executable, "-m", "pip", "install", "--no-index",
                           "--find-links", "/opt/veriftools/wheels", "hypothesis"])
import os
HERE = os.path.dirname(os.path.dirname(os.path.abspath(__file__)))
if not os.path.isdir(os.path.join(HERE, ".deps", "atheris")):
    # optional engine for the thorough tier of C18; its absence is recorded, never a failure
    subprocess.call([sys.executable, "-m", "pip", "install", "--no-index", "--find-links", "/opt/veriftools/wheels",
                     "--target", os.path.join(HERE, ".deps"), "atheris"])
os.makedirs(os.path.join(os.path.dirname(os.path.dirname(os.path.abspath(__file__))), "evidence"), exist_ok=True)
