#!/usr/bin/env python3
"""Re-run checks against stored seeded changes: tools/reseed.py [ids...] [--checks=C03,C05] [--seed=N]
Each /verif/seeded/<id>/patch.diff is applied to a throw-away worktree of /repo HEAD."""
import json, os, shutil, subprocess, sys, tempfile, time
HERE = os.path.dirname(os.path.dirname(os.path.abspath(__file__)))

def sh(cmd, **kw):
    return subprocess.run(cmd, capture_output=True, text=True, **kw)

ids = [a for a in sys.argv[1:] if not a.startswith("--")]
checks = None; seed = "1"; tier = "quick"
for a in sys.argv[1:]:
    if a.startswith("--checks="): checks = a.split("=")[1].split(",")
    if a.startswith("--seed="): seed = a.split("=")[1]
    if a.startswith("--tier="): tier = a.split("=")[1]
if not ids:
    ids = sorted(os.listdir(os.path.join(HERE, "seeded")))
for sid in ids:
    d = os.path.join(HERE, "seeded", sid)
    if not os.path.exists(os.path.join(d, "patch.diff")):
        continue
    meta = json.load(open(os.path.join(d, "meta.json")))
    if meta.get("neutralised"):
        print(f"{sid}: skipped (neutralised by a later repo fix)"); continue
    cs = checks or [meta["property"]]
    tmp = tempfile.mkdtemp(prefix="reseed_", dir="/tmp")
    wt = tmp + "/r"
    try:
        sh(["git", "-C", "/repo", "worktree", "add", "-q", "--detach", wt])
        ap = sh(["git", "-C", wt, "apply", os.path.join(d, "patch.diff")])
        if ap.returncode:
            print(f"{sid}: patch no longer applies: {ap.stderr[:200]}"); continue
        for c in cs:
            t0 = time.time()
            r = sh(["/venv/bin/python", os.path.join(HERE, "run.py"), c, "--tier", tier, "--no-evidence"],
                   env=dict(os.environ, VERIF_REPO=wt, VERIF_SEED=seed))
            lines = [l for l in r.stdout.splitlines() if "violated" in l]
            verdict = {0: "MISSED", 1: "CAUGHT", 2: "HARNESS-ERROR"}.get(r.returncode, "?")
            print(f"{sid}: check {c} seed={seed}: {verdict} ({time.time()-t0:.0f}s) {(lines[0][:220] if lines else '')}")
            if r.returncode == 2: print(r.stderr[-600:])
            meta.setdefault("checks_run", {})[c] = {"exit": r.returncode, "first": lines[0][:300] if lines else "", "seed": seed}
        json.dump(meta, open(os.path.join(d, "meta.json"), "w"), indent=1)
    finally:
        sh(["git", "-C", "/repo", "worktree", "remove", "--force", wt])
        shutil.rmtree(tmp, ignore_errors=True)
        sh(["git", "-C", "/repo", "worktree", "prune"])
