#!/usr/bin/env python3
"""For every property: apply seeded change <P>-1 in a scratch worktree, run the check, take the replay file
it writes, and confirm that `run.py P --replay F` reproduces the violation there (exit 1) and holds on /repo
(exit 0)."""
import os, re, shutil, subprocess, sys, tempfile
HERE = os.path.dirname(os.path.dirname(os.path.abspath(__file__)))
def sh(cmd, **kw): return subprocess.run(cmd, capture_output=True, text=True, **kw)
props = sys.argv[1:] or [f"C{i:02d}" for i in range(1, 19)]
for p in props:
    patch = os.path.join(HERE, "seeded", p + "-1", "patch.diff")
    tmp = tempfile.mkdtemp(prefix="rr_", dir="/tmp"); wt = tmp + "/r"
    try:
        sh(["git", "-C", "/repo", "worktree", "add", "-q", "--detach", wt])
        if sh(["git", "-C", wt, "apply", patch]).returncode:
            print(p, "patch does not apply"); continue
        env = dict(os.environ, VERIF_REPO=wt, VERIF_SEED="1")
        r = sh(["/venv/bin/python", os.path.join(HERE, "run.py"), p, "--no-evidence"], env=env)
        m = re.search(r"^VIOLATION property=\S+ replay=(\S+)", r.stdout, re.M)
        if not m:
            print(p, "no violation produced", r.returncode); continue
        f = m.group(1)
        r1 = sh(["/venv/bin/python", os.path.join(HERE, "run.py"), p, "--replay", f], env=env)
        r0 = sh(["/venv/bin/python", os.path.join(HERE, "run.py"), p, "--replay", f], env=dict(os.environ))
        print(p, f, "replay on patched tree: exit", r1.returncode, "| on /repo: exit", r0.returncode,
              "OK" if (r1.returncode, r0.returncode) == (1, 0) else "<<<<< PROBLEM")
        if (r1.returncode, r0.returncode) != (1, 0):
            print(r1.stdout[-500:], r1.stderr[-800:], r0.stdout[-300:], r0.stderr[-500:])
    finally:
        sh(["git", "-C", "/repo", "worktree", "remove", "--force", wt]); shutil.rmtree(tmp, ignore_errors=True)
        sh(["git", "-C", "/repo", "worktree", "prune"])
